(* ConvSound.v -- C01, the other direction on fully attributed vectors (flat levels): when the scan
   gives every token a role, the parser returns a value ONLY IF the declared grammar accepts the
   vector, and then it is the value the grammar denotes.  So a duplicated single-occurrence item, a
   missing required item, a value that does not convert, a positional too many or too few -- every
   way an attributed vector can fail the arity / value checks -- is a failure of the parser. *)
From Coq Require Import Lia List Bool Arith ZArith.
From BpafModel Require Import Conv.
From BpafLemmas Require Import Tac EvalEq Find Reach Ledger NoLoss C05Lemmas AbsSim AbsTotal ConvRefine.
Import ListNotations.

(* ------------------------------------------------------------------ S1. what a field cannot remove *)
Definition uniq (l : lv) : Prop := NoDup (map fst l).

Lemma uniq_filter f l : uniq l -> uniq (filter f l).
Proof.
  unfold uniq. induction l as [|x t IH]; cbn; [auto|]. intros H. inversion H as [|? ? Hn Ht]; subst.
  destruct (f x); cbn; [|auto]. constructor; [|auto].
  intros Hin. apply Hn. apply in_map_iff in Hin. destruct Hin as (y & E & Hy). apply filter_In in Hy.
  apply in_map_iff. exists y. split; [exact E|apply Hy].
Qed.

Lemma uniq_remove i l : uniq l -> uniq (aremove i l).
Proof. apply uniq_filter. Qed.

Lemma uniq_same l x y : uniq l -> In x l -> In y l -> fst x = fst y -> x = y.
Proof.
  unfold uniq. induction l as [|z t IH]; intros H Hx Hy E; [contradiction|].
  cbn in H. inversion H as [|? ? Hn Ht]; subst.
  destruct Hx as [->|Hx]; destruct Hy as [->|Hy]; auto.
  - exfalso. apply Hn. rewrite E. apply in_map. exact Hy.
  - exfalso. apply Hn. rewrite <- E. apply in_map. exact Hx.
Qed.

Lemma remove_keeps i l x : uniq l -> In x l -> (forall y, In y l -> fst y = i -> y <> x) -> In x (aremove i l).
Proof.
  intros U Hx Hne. unfold aremove. apply filter_In. split; [exact Hx|].
  apply negb_true_iff. apply Nat.eqb_neq. intros E. apply (Hne x Hx E). reflexivity.
Qed.

(* x survives the evaluator, and so does the uniqueness of indices *)
Definition safe (x : nat * arg) (ev : lv -> ares * lv) : Prop :=
  forall l, uniq l -> In x l -> uniq (snd (ev l)) /\ In x (snd (ev l)).

Lemma aget_in i l a : aget i l = Some a -> In (i, a) l.
Proof.
  unfold aget. destruct (find (fun p => Nat.eqb (fst p) i) l) as [[j b]|] eqn:F; [|discriminate].
  cbn. intros H; inversion H; subst. apply find_some in F. destruct F as [Hin E]. cbn in E. apply Nat.eqb_eq in E. subst. exact Hin.
Qed.

Lemma flag_safe nm pr ab x :
  is_key (snd x) = true -> matches_arg nm false (snd x) = false -> safe x (aeval_flag nm pr ab).
Proof.
  intros Kx Mx l U Hx. unfold aeval_flag. destruct (afind (matches_arg nm false) l) as [[i a]|] eqn:F; cbn [snd].
  - apply afind_in in F. destruct F as [Hin Ma]. split; [apply uniq_remove; exact U|].
    apply remove_keeps; auto. intros y Hy Ey E. subst y.
    assert (x = (i, a)) by (apply (uniq_same l); auto). subst x. cbn in Mx. congruence.
  - destruct ab; cbn; auto.
Qed.

Lemma aconvert_snd' ty w l : snd (aconvert ty w l) = l.
Proof. unfold aconvert. destruct (convert ty w); reflexivity. Qed.

Lemma arg_safe nm ty x :
  is_key (snd x) = true -> matches_arg nm false (snd x) = false -> safe x (aeval_arg nm ty).
Proof.
  intros Kx Mx l U Hx. unfold aeval_arg. destruct (afind (matches_arg nm false) l) as [[i a]|] eqn:F; [|cbn; auto].
  apply afind_in in F. destruct F as [Hin Ma].
  assert (Hk : forall b w, aget (S i) l = Some b -> is_value b = Some w ->
               uniq (aremove (S i) (aremove i l)) /\ In x (aremove (S i) (aremove i l))).
  { intros b w G V. apply aget_in in G. split; [apply uniq_remove, uniq_remove; exact U|].
    apply remove_keeps; [apply uniq_remove; exact U| |].
    - apply remove_keeps; auto. intros y Hy Ey E. subst y.
      assert (x = (i, a)) by (apply (uniq_same l); auto). subst x. cbn in Mx. congruence.
    - intros y Hy Ey E. subst y. apply aremove_incl in Hy.
      assert (x = (S i, b)) by (apply (uniq_same l); auto). subst x. cbn in Kx.
      rewrite (value_not_key b w V) in Kx. discriminate. }
  destruct (aget (S i) l) as [[c adj os|n' adj os|w|w|w]|] eqn:G; cbn [snd]; auto.
  - rewrite aconvert_snd'. apply (Hk (ArgWord w) w eq_refl eq_refl).
  - rewrite aconvert_snd'. apply (Hk (Word w) w eq_refl eq_refl).
Qed.

Lemma pos_safe ty x : is_key (snd x) = true -> safe x (aeval_pos ty).
Proof.
  intros Kx l U Hx. unfold aeval_pos. destruct (afind is_word l) as [[i a]|] eqn:F; [|cbn; auto].
  apply afind_in in F. destruct F as [Hin Wa].
  assert (Hk : uniq (aremove i l) /\ In x (aremove i l)).
  { split; [apply uniq_remove; exact U|]. apply remove_keeps; auto. intros y Hy Ey E. subst y.
    assert (x = (i, a)) by (apply (uniq_same l); auto). subst x. cbn in Kx. rewrite (word_not_key a Wa) in Kx. discriminate. }
  destruct a; cbn [snd]; auto; rewrite aconvert_snd'; exact Hk.
Qed.

Section Wrappers.
Variable x : nat * arg.
Variable ev : lv -> ares * lv.
Hypothesis Hs : safe x ev.

Lemma parse_option_safe len l : uniq l -> In x l ->
  uniq (snd (aparse_option ev len l)) /\ In x (snd (aparse_option ev len l)).
Proof.
  intros U Hx. unfold aparse_option. destruct (Hs l U Hx) as [U1 X1]. destruct (ev l) as [r l1]. cbn [snd] in *.
  destruct r as [v|m c|]; cbn; auto.
  - destruct (lt_len (length l1) len); cbn; auto.
  - destruct ((m && Nat.eqb (length l) (length l1)) || (negb m && c)); cbn; auto.
Qed.

Lemma many_loop_safe fuel : forall len l acc, uniq l -> In x l ->
  uniq (snd (amany_loop ev fuel len l acc)) /\ In x (snd (amany_loop ev fuel len l acc)).
Proof.
  induction fuel as [|f IH]; intros len l acc U Hx; cbn [amany_loop]; [cbn; auto|].
  destruct (parse_option_safe len l U Hx) as [U1 X1]. destruct (aparse_option ev len l) as [[o len'] l1]. cbn [snd] in *.
  destruct o; cbn; auto.
Qed.

Lemma count_loop_safe fuel : forall len l cur k last, uniq l -> In x l ->
  uniq (snd (acount_loop ev fuel len l cur k last)) /\ In x (snd (acount_loop ev fuel len l cur k last)).
Proof.
  induction fuel as [|f IH]; intros len l cur k last U Hx; cbn [acount_loop]; [cbn; auto|].
  destruct (parse_option_safe len l U Hx) as [U1 X1]. destruct (aparse_option ev len l) as [[o len'] l1]. cbn [snd] in *.
  destruct o; cbn; auto. destruct (Nat.eqb cur (length l1)); cbn; auto.
Qed.

Lemma optional_safe : safe x (aoptional ev).
Proof.
  intros l U Hx. unfold aoptional. destruct (parse_option_safe None l U Hx) as [U1 X1].
  destruct (aparse_option ev None l) as [[o len'] l1]. destruct o; cbn in *; auto.
Qed.
Lemma many_safe fuel : safe x (amany fuel ev).
Proof.
  intros l U Hx. unfold amany. destruct (many_loop_safe fuel None l [] U Hx) as [U1 X1].
  destruct (amany_loop ev fuel None l []) as [[r acc] l1]. destruct r; cbn in *; auto.
Qed.
Lemma some_safe fuel : safe x (asome fuel ev).
Proof.
  intros l U Hx. unfold asome. destruct (many_loop_safe fuel None l [] U Hx) as [U1 X1].
  destruct (amany_loop ev fuel None l []) as [[r acc] l1]. destruct r; cbn in *; auto. destruct acc; cbn; auto.
Qed.
Lemma count_safe fuel : safe x (acount fuel ev).
Proof.
  intros l U Hx. unfold acount. destruct (count_loop_safe fuel None l (length l) 0 None U Hx) as [U1 X1].
  destruct (acount_loop ev fuel None l (length l) 0 None) as [[[r k] la] l1]. destruct r; cbn in *; auto.
Qed.
Lemma last_safe fuel : safe x (alast fuel ev).
Proof.
  intros l U Hx. unfold alast. destruct (count_loop_safe fuel None l (length l) 0 None U Hx) as [U1 X1].
  destruct (acount_loop ev fuel None l (length l) 0 None) as [[[r k] la] l1]. cbn [snd] in *.
  destruct r; cbn; auto. destruct la; cbn; auto.
Qed.
Lemma fallback_safe v : safe x (afallback ev v).
Proof.
  intros l U Hx. unfold afallback. destruct (Hs l U Hx) as [U1 X1]. destruct (ev l) as [r l1]. cbn [snd] in *.
  destruct r as [y|m c|]; cbn; auto. destruct c; cbn; auto.
Qed.
End Wrappers.

Lemma item_safe fuel it x :
  is_key (snd x) = true -> matches_arg (item_named it) false (snd x) = false -> safe x (aeval fuel (compile_item it)).
Proof.
  intros Kx Mx. destruct it as [n|n p a|n p|n|n p|n mv ty ar]; cbn [compile_item item_named] in *.
  - apply flag_safe; assumption.
  - apply flag_safe; assumption.
  - apply flag_safe; assumption.
  - cbn [aeval]. apply count_safe. apply flag_safe; assumption.
  - cbn [aeval]. apply many_safe. apply flag_safe; assumption.
  - destruct ar; cbn [aeval].
    + apply arg_safe; assumption.
    + apply optional_safe. apply arg_safe; assumption.
    + apply many_safe. apply arg_safe; assumption.
    + apply some_safe. apply arg_safe; assumption.
    + apply fallback_safe. apply arg_safe; assumption.
    + apply last_safe. apply arg_safe; assumption.
Qed.

Lemma posf_safe fuel p x : is_key (snd x) = true -> safe x (aeval fuel (compile_pos p)).
Proof.
  intros Kx. unfold compile_pos. destruct (cp_par p); cbn [aeval].
  - apply pos_safe; assumption.
  - apply optional_safe. apply pos_safe; assumption.
  - apply many_safe. apply pos_safe; assumption.
  - apply some_safe. apply pos_safe; assumption.
Qed.

(* a surviving token makes the construct! end with a non-empty list, whatever the fields return *)
Lemma acon_go_safe x evs : Forall (safe x) evs -> forall l acc err, uniq l -> In x l ->
  In x (snd (acon_go evs l acc err)).
Proof.
  induction 1 as [|ev t H Ht IH]; intros l acc err U Hx; cbn [acon_go].
  - destruct err as [[m c]|]; exact Hx.
  - destruct (H l U Hx) as [U1 X1]. destruct (ev l) as [r l1]. cbn [snd] in *.
    destruct r; cbn; auto.
Qed.

(* ------------------------------------------------------------------ S2. one item, read backwards *)
Definition leftover (nm : named) (l : lv) : Prop :=
  exists x, In x l /\ matches_arg nm false (snd x) = true.

Lemma match_is_key nm a : matches_arg nm false a = true -> is_key a = true.
Proof. destruct a; cbn; congruence. Qed.

Lemma flag_ok_leftover nm pr l v l' : aeval_flag nm pr None l = (AOk v, l') -> leftover nm l.
Proof.
  unfold aeval_flag. destruct (afind (matches_arg nm false) l) as [[i a]|] eqn:F; [|discriminate].
  intros _. apply afind_in in F. destruct F as [Hin M]. exists (i, a). auto.
Qed.

Lemma arg_notmissing_leftover nm ty l r l' : aeval_arg nm ty l = (r, l') -> r <> AErr true true -> leftover nm l.
Proof.
  unfold aeval_arg. destruct (afind (matches_arg nm false) l) as [[i a]|] eqn:F.
  - intros _ _. apply afind_in in F. destruct F as [Hin M]. exists (i, a). auto.
  - intros H Hn. inversion H; subst. contradiction.
Qed.

Lemma pops_two ev l v v2 vs l' : Pops ev l (v :: v2 :: vs) l' ->
  exists l1 l2, ev l = (AOk v, l1) /\ ev l1 = (AOk v2, l2).
Proof.
  intros P. inversion P as [|? ? l1 ? ? E Hlt P1]; subst. inversion P1 as [|? ? l2 ? ? E2 Hlt2 P2]; subst. eauto.
Qed.

(* repeated evaluation that may also end in a final error *)
Inductive Run (ev : lv -> ares * lv) : lv -> list val -> bool -> lv -> Prop :=
| Run_missing l : ev l = (AErr true true, l) -> Run ev l [] false l
| Run_error l l' : ev l = (AErr false false, l') -> Run ev l [] true l'
| Run_cons l v l1 vs b l' :
    ev l = (AOk v, l1) -> length l1 < length l -> Run ev l1 vs b l' -> Run ev l (v :: vs) b l'.

Lemma run_skip ev x l vs b l' :
  (forall l0, above (fst x) l0 -> ev (x :: l0) = (fst (ev l0), x :: snd (ev l0))) ->
  (forall l0, incl (snd (ev l0)) l0) ->
  above (fst x) l -> Run ev l vs b l' -> Run ev (x :: l) vs b (x :: l').
Proof.
  intros Hskip Hincl A R. induction R as [l E|l l' E|l v l1 vs b l' E Hlt R IH].
  - apply Run_missing. rewrite (Hskip l A), E. reflexivity.
  - apply Run_error. rewrite (Hskip l A), E. reflexivity.
  - assert (A1 : above (fst x) l1).
    { intros p Hp. apply A. pose proof (Hincl l) as I. rewrite E in I. apply I. exact Hp. }
    eapply Run_cons; [rewrite (Hskip l A), E; reflexivity|cbn; lia|apply IH; exact A1].
Qed.

Lemma run_pops ev l vs l' : Run ev l vs false l' -> Pops ev l vs l'.
Proof.
  intros R. remember false as b eqn:Eb. induction R as [l E|l l' E|l v l1 vs b l' E Hlt R IH]; try discriminate.
  - apply Pops_nil. exact E.
  - eapply Pops_cons; eauto.
Qed.

(* loops over a run that ends in an error end in that error *)
Lemma amany_run_err ev l vs l' : Run ev l vs true l' ->
  forall fuel len acc x, len_ok len l -> fst (fst (amany_loop ev fuel len l acc)) <> AOk x.
Proof.
  intros R. remember true as b eqn:Eb. induction R as [l E|l l' E|l v l1 vs b l' E Hlt R IH]; try discriminate; intros fuel len acc x Hl.
  - destruct fuel as [|f]; [cbn; discriminate|]. cbn [amany_loop]. unfold aparse_option. rewrite E. cbn. discriminate.
  - destruct fuel as [|f]; [cbn; discriminate|]. cbn [amany_loop]. unfold aparse_option. rewrite E.
    assert (L : lt_len (length l1) len = true).
    { destruct Hl as [->| ->]; cbn; [reflexivity|apply Nat.ltb_lt; exact Hlt]. }
    rewrite L. apply (IH Eb). right. reflexivity.
Qed.

Lemma acount_run_err ev l vs l' : Run ev l vs true l' ->
  forall fuel len cur k last, len_ok len l -> length l <= cur ->
  forall x, fst (fst (fst (acount_loop ev fuel len l cur k last))) <> AOk x.
Proof.
  intros R. remember true as b eqn:Eb. induction R as [l E|l l' E|l v l1 vs b l' E Hlt R IH]; try discriminate; intros fuel len cur k last Hl Hc x.
  - destruct fuel as [|f]; [cbn; discriminate|]. cbn [acount_loop]. unfold aparse_option. rewrite E. cbn. discriminate.
  - destruct fuel as [|f]; [cbn; discriminate|]. cbn [acount_loop]. unfold aparse_option. rewrite E.
    assert (L : lt_len (length l1) len = true).
    { destruct Hl as [->| ->]; cbn; [reflexivity|apply Nat.ltb_lt; exact Hlt]. }
    rewrite L. assert (Ne : Nat.eqb cur (length l1) = false) by (apply Nat.eqb_neq; lia). rewrite Ne.
    apply (IH Eb); [right; reflexivity|lia].
Qed.

Section ItemInv.
Variable items : list citem.
Hypothesis Hdis : disjoint_names items.

Section ArgRun.
Variable k : nat.
Variable it : citem.
Hypothesis Hit : nth_error items k = Some it.
Let nm := item_named it.

(* argument items: the occurrences are popped in order until one fails to convert *)
Lemma arg_run ty lo t :
  is_argument it = true -> WF items lo t -> kept k t ->
  exists vs b l', Run (aeval_arg nm ty) (untag t) vs b l' /\
    (b = false -> convert_all ty (kvals k t) = Some vs /\ l' = untag (filter (keep (S k)) t)) /\
    (b = true -> convert_all ty (kvals k t) = None).
Proof.
  intros Hia W. induction W as [lo|lo i a j itj t Hl Hk Ho Ha W IH|lo i a j itj b w t Hl Hk Ho Ha Hv W IH|lo i a t Hl Hw W IH|lo i a t Hl Hfo W IH];
    intros Kp.
  - exists [], false, []. split; [apply Run_missing; reflexivity|]. split; [intros _; split; reflexivity|discriminate].
  - pose proof (key_match items Hdis k it Hit a j itj Ho) as M. fold nm in M.
    assert (J : Nat.eqb j k = false).
    { destruct (Nat.eqb j k) eqn:J; [|reflexivity]. apply Nat.eqb_eq in J. subst j.
      destruct (find_owner_spec items a 0 k itj Ho) as (_ & Hn & _). rewrite Nat.sub_0_r, Hit in Hn. inversion Hn; subst. congruence. }
    rewrite J in M.
    assert (E : kvals k ((i, a, RKey j) :: t) = kvals k t).
    { unfold kvals. rewrite (occs_flag items lo i a j t W Hl). unfold occ_of. cbn [filter fst]. rewrite J. reflexivity. }
    destruct (IH (kept_tail _ _ _ Kp)) as (vs & b & l' & R & H1 & H2).
    assert (Kj : keep k (i, a, RKey j) = true) by (apply Kp; left; reflexivity). cbn in Kj. apply Nat.leb_le in Kj. apply Nat.eqb_neq in J.
    exists vs, b, ((i, a) :: l'). rewrite E. split.
    + cbn [untag map fst]. fold (untag t). apply (run_skip _ (i, a)); [|apply arg_incl|apply (WF_above' items _ _ W)|exact R].
      intros l0 A. apply arg_skip; [exact M|exact A].
    + split; [|exact H2]. intros Eb. destruct (H1 Eb) as [C ->]. split; [exact C|].
      cbn [filter keep snd]. assert (Kf : Nat.leb (S k) j = true) by (apply Nat.leb_le; lia). rewrite Kf. reflexivity.
  - pose proof (key_match items Hdis k it Hit a j itj Ho) as M. fold nm in M.
    assert (Hw : word_of b = w) by (destruct b; cbn in Hv; try discriminate; inversion Hv; reflexivity).
    destruct (IH (fun x Hx => Kp x (or_intror (or_intror Hx)))) as (vs & bb & l' & R & H1 & H2).
    destruct (Nat.eqb j k) eqn:J.
    + apply Nat.eqb_eq in J. subst j.
      assert (E : kvals k ((i, a, RKey k) :: (S i, b, RVal k) :: t) = Some w :: kvals k t).
      { unfold kvals. cbn [occs_of]. unfold occ_of. cbn [filter fst]. rewrite Nat.eqb_refl. cbn [map snd]. rewrite Hw. reflexivity. }
      rewrite E. cbn [convert_all].
      assert (St : aeval_arg nm ty (untag ((i, a, RKey k) :: (S i, b, RVal k) :: t)) = aconvert ty w (untag t)).
      { cbn [untag map fst]. fold (untag t). apply arg_head; [exact M|exact Hv|apply (WF_above' items _ _ W)]. }
      destruct (convert ty w) as [v|e] eqn:Cv.
      * exists (v :: vs), bb, l'. split.
        -- apply (Run_cons _ _ v (untag t)); [rewrite St; unfold aconvert; rewrite Cv; reflexivity|unfold untag; cbn [map length]; lia|exact R].
        -- split.
           ++ intros Eb. destruct (H1 Eb) as [C ->]. rewrite C. split; [reflexivity|].
              cbn [filter keep snd]. assert (Kf : Nat.leb (S k) k = false) by (apply Nat.leb_gt; lia). rewrite Kf. reflexivity.
           ++ intros Eb. rewrite (H2 Eb). reflexivity.
      * exists [], true, (untag t). split.
        -- apply Run_error. rewrite St. unfold aconvert. rewrite Cv. reflexivity.
        -- split; [discriminate|reflexivity].
    + assert (E : kvals k ((i, a, RKey j) :: (S i, b, RVal j) :: t) = kvals k t).
      { unfold kvals. cbn [occs_of]. unfold occ_of. cbn [filter fst]. rewrite J. reflexivity. }
      assert (Kj : keep k (i, a, RKey j) = true) by (apply Kp; left; reflexivity). cbn in Kj. apply Nat.leb_le in Kj. apply Nat.eqb_neq in J.
      exists vs, bb, ((i, a) :: (S i, b) :: l'). rewrite E. split.
      * cbn [untag map fst]. fold (untag t).
        apply (run_skip _ (i, a)); [|apply arg_incl| |].
        -- intros l0 A. apply arg_skip; [exact M|exact A].
        -- intros p [<-|Hp]; cbn; [lia|]. pose proof (WF_above items _ _ W p Hp). lia.
        -- apply (run_skip _ (S i, b)); [|apply arg_incl|apply (WF_above' items _ _ W)|exact R].
           intros l0 A. apply arg_skip; [apply not_key_no_match; eapply value_not_key; eauto|exact A].
      * split; [|exact H2]. intros Eb. destruct (H1 Eb) as [C ->]. split; [exact C|].
        cbn [filter keep snd]. assert (Kf : Nat.leb (S k) j = true) by (apply Nat.leb_le; lia). rewrite Kf. reflexivity.
  - destruct (IH (kept_tail _ _ _ Kp)) as (vs & b & l' & R & H1 & H2).
    exists vs, b, ((i, a) :: l'). unfold kvals in *. cbn [occs_of]. split.
    + cbn [untag map fst]. fold (untag t). apply (run_skip _ (i, a)); [|apply arg_incl|apply (WF_above' items _ _ W)|exact R].
      intros l0 A. apply arg_skip; [apply not_key_no_match; apply word_not_key; exact Hw|exact A].
    + split; [|exact H2]. intros Eb. destruct (H1 Eb) as [C ->]. split; [exact C|reflexivity].
  - destruct (IH (kept_tail _ _ _ Kp)) as (vs & b & l' & R & H1 & H2).
    exists vs, b, ((i, a) :: l'). unfold kvals in *. cbn [occs_of]. split.
    + cbn [untag map fst]. fold (untag t). apply (run_skip _ (i, a)); [|apply arg_incl|apply (WF_above' items _ _ W)|exact R].
      intros l0 A. apply arg_skip; [apply Hfo; eapply nth_error_In; exact Hit|exact A].
    + split; [|exact H2]. intros Eb. destruct (H1 Eb) as [C ->]. split; [exact C|reflexivity].
Qed.
End ArgRun.

Lemma run_true_first ev l vs l' : Run ev l vs true l' -> exists r l1, ev l = (r, l1) /\ r <> AErr true true.
Proof. intros R. inversion R; subst; eexists; eexists; split; eauto; discriminate. Qed.

Lemma item_inv fuel k it lo t v l' :
  nth_error items k = Some it -> WF items lo t -> kept k t -> length (untag t) < fuel ->
  aeval fuel (compile_item it) (untag t) = (AOk v, l') ->
  (item_value it (kvals k t) = Some v /\ l' = untag (filter (keep (S k)) t)) \/ leftover (item_named it) l'.
Proof.
  intros Hit W Kp Hf H.
  destruct it as [n|n p a|n p|n|n p|n mv ty ar]; cbn [compile_item item_value item_named] in *.
  - (* switch *)
    pose proof (flag_pops items Hdis k _ Hit (VBool true) lo t eq_refl W Kp) as P. cbn [item_named] in P.
    cbn [aeval] in H. rewrite flag_absent in H.
    destruct (kvals k t) as [|o [|o2 r]]; cbn [length repeat] in P.
    + destruct (pops_none _ _ _ P) as [E El]. rewrite E in H. inversion H; subst. left. split; [reflexivity|symmetry; exact El].
    + rewrite (pops_one _ _ _ _ P) in H. inversion H; subst. left. split; reflexivity.
    + destruct (pops_two _ _ _ _ _ _ P) as (l1 & l2 & E1 & E2). rewrite E1 in H. inversion H; subst.
      right. eapply flag_ok_leftover. exact E2.
  - (* flag *)
    pose proof (flag_pops items Hdis k _ Hit p lo t eq_refl W Kp) as P. cbn [item_named] in P.
    cbn [aeval] in H. rewrite flag_absent in H.
    destruct (kvals k t) as [|o [|o2 r]]; cbn [length repeat] in P.
    + destruct (pops_none _ _ _ P) as [E El]. rewrite E in H. inversion H; subst. left. split; [reflexivity|symmetry; exact El].
    + rewrite (pops_one _ _ _ _ P) in H. inversion H; subst. left. split; reflexivity.
    + destruct (pops_two _ _ _ _ _ _ P) as (l1 & l2 & E1 & E2). rewrite E1 in H. inversion H; subst.
      right. eapply flag_ok_leftover. exact E2.
  - (* req_flag *)
    pose proof (flag_pops items Hdis k _ Hit p lo t eq_refl W Kp) as P. cbn [item_named] in P.
    cbn [aeval] in H.
    destruct (kvals k t) as [|o [|o2 r]]; cbn [length repeat] in P.
    + destruct (pops_none _ _ _ P) as [E El]. rewrite E in H. discriminate.
    + rewrite (pops_one _ _ _ _ P) in H. inversion H; subst. left. split; reflexivity.
    + destruct (pops_two _ _ _ _ _ _ P) as (l1 & l2 & E1 & E2). rewrite E1 in H. inversion H; subst.
      right. eapply flag_ok_leftover. exact E2.
  - (* count *)
    pose proof (flag_pops items Hdis k _ Hit VUnit lo t eq_refl W Kp) as P. cbn [item_named] in P.
    cbn [aeval] in H. change (fun l : lv => aeval_flag n VUnit None l) with (aeval_flag n VUnit None) in H.
    rewrite (count_all _ fuel _ _ _ P Hf) in H. rewrite repeat_length in H. inversion H; subst. left. split; reflexivity.
  - (* req_flag many *)
    pose proof (flag_pops items Hdis k _ Hit p lo t eq_refl W Kp) as P. cbn [item_named] in P.
    cbn [aeval] in H. change (fun l : lv => aeval_flag n p None l) with (aeval_flag n p None) in H.
    rewrite (many_all _ fuel _ _ _ P Hf) in H. inversion H; subst. left. split; [rewrite repeat_map; reflexivity|reflexivity].
  - (* argument *)
    destruct (arg_run k _ Hit ty lo t eq_refl W Kp) as (vs & b & lf & R & H1 & H2). cbn [item_named] in R.
    destruct b.
    + (* a value does not convert *)
      rewrite (H2 eq_refl). destruct (run_true_first _ _ _ _ R) as (r1 & l1 & E1 & Hn1).
      destruct ar; cbn [aeval compile_item] in H; try change (fun l : lv => aeval_arg n ty l) with (aeval_arg n ty) in H.
      * rewrite E1 in H. inversion H; subst. right.
        inversion R as [| |? v1 l1' vs' ? ? Ev Hlt R1]; subst; [congruence|].
        rewrite Ev in E1. inversion E1; subst.
        destruct (run_true_first _ _ _ _ R1) as (r2 & l2 & E2 & Hn2). eapply arg_notmissing_leftover; eauto.
      * unfold aoptional, aparse_option in H. rewrite E1 in H.
        inversion R as [|? ? Ee|? v1 l1' vs' ? ? Ev Hlt R1]; subst.
        -- rewrite Ee in E1. inversion E1; subst. cbn in H. discriminate.
        -- rewrite Ev in E1. inversion E1; subst. cbn in H. inversion H; subst. right.
           destruct (run_true_first _ _ _ _ R1) as (r2 & l2 & E2 & Hn2). eapply arg_notmissing_leftover; eauto.
      * exfalso. unfold amany in H.
        pose proof (amany_run_err _ _ _ _ R fuel None []) as F.
        destruct (amany_loop (aeval_arg n ty) fuel None (untag t) []) as [[r acc] l2]. cbn [fst] in F.
        destruct r as [x| |]; try discriminate. apply (F x); [left; reflexivity|reflexivity].
      * exfalso. unfold asome in H.
        pose proof (amany_run_err _ _ _ _ R fuel None []) as F.
        destruct (amany_loop (aeval_arg n ty) fuel None (untag t) []) as [[r acc] l2]. cbn [fst] in F.
        destruct r as [x| |]; try discriminate. apply (F x); [left; reflexivity|reflexivity].
      * unfold afallback in H. rewrite E1 in H.
        inversion R as [|? ? Ee|? v1 l1' vs' ? ? Ev Hlt R1]; subst.
        -- rewrite Ee in E1. inversion E1; subst. cbn in H. discriminate.
        -- rewrite Ev in E1. inversion E1; subst. inversion H; subst. right.
           destruct (run_true_first _ _ _ _ R1) as (r2 & l2 & E2 & Hn2). eapply arg_notmissing_leftover; eauto.
      * exfalso. unfold alast in H.
        pose proof (acount_run_err _ _ _ _ R fuel None (length (untag t)) 0 None) as F.
        destruct (acount_loop (aeval_arg n ty) fuel None (untag t) (length (untag t)) 0 None) as [[[r kk] la] l2]. cbn [fst] in F.
        destruct r as [x| |]; try discriminate. apply (F (or_introl eq_refl) (le_n _) x). reflexivity.
    + (* every value converts *)
      destruct (H1 eq_refl) as [Cv ->]. rewrite Cv. pose proof (run_pops _ _ _ _ R) as P.
      destruct ar; cbn [aeval compile_item] in H; try change (fun l : lv => aeval_arg n ty l) with (aeval_arg n ty) in H.
      * destruct vs as [|x [|y r]].
        -- destruct (pops_none _ _ _ P) as [E El]. rewrite E in H. discriminate.
        -- rewrite (pops_one _ _ _ _ P) in H. inversion H; subst. left. split; reflexivity.
        -- destruct (pops_two _ _ _ _ _ _ P) as (l1 & l2 & E1 & E2). rewrite E1 in H. inversion H; subst.
           right. eapply arg_notmissing_leftover; [exact E2|discriminate].
      * destruct vs as [|x [|y r]].
        -- rewrite (optional_none _ _ _ P) in H. inversion H; subst. left. split; reflexivity.
        -- rewrite (optional_one _ _ _ _ P) in H. inversion H; subst. left. split; reflexivity.
        -- destruct (pops_two _ _ _ _ _ _ P) as (l1 & l2 & E1 & E2). unfold aoptional, aparse_option in H. rewrite E1 in H.
           cbn in H. inversion H; subst. right. eapply arg_notmissing_leftover; [exact E2|discriminate].
      * rewrite (many_all _ fuel _ _ _ P Hf) in H. inversion H; subst. left. split; reflexivity.
      * destruct vs as [|x r].
        -- exfalso. unfold asome in H. rewrite (amany_pops _ _ _ _ P fuel None []) in H; [|cbn; lia|left; reflexivity]. cbn in H. discriminate.
        -- rewrite (some_all _ fuel _ _ _ P ltac:(discriminate) Hf) in H. inversion H; subst. left. split; reflexivity.
      * destruct vs as [|x [|y r]].
        -- rewrite (fallback_none _ _ _ _ P) in H. inversion H; subst. left. split; reflexivity.
        -- rewrite (fallback_one _ _ _ _ _ P) in H. inversion H; subst. left. split; reflexivity.
        -- destruct (pops_two _ _ _ _ _ _ P) as (l1 & l2 & E1 & E2). unfold afallback in H. rewrite E1 in H.
           inversion H; subst. right. eapply arg_notmissing_leftover; [exact E2|discriminate].
      * destruct vs as [|x r].
        -- exfalso. unfold alast in H.
           rewrite (acount_pops _ _ _ _ P fuel None (length (untag t)) 0 None) in H; [|cbn; lia|left; reflexivity|lia|auto].
           cbn in H. destruct (pops_none _ _ _ P) as [E El]. rewrite El, E in H. discriminate.
        -- rewrite (last_all _ fuel _ _ _ P ltac:(discriminate) Hf) in H. inversion H; subst. left. split; reflexivity.
Qed.
End ItemInv.

(* ------------------------------------------------------------------ every evaluator only filters its list *)
Definition filt (ev : lv -> ares * lv) : Prop := forall l, exists f, snd (ev l) = filter f l.

Lemma filter_filter {A} (f g : A -> bool) l : filter f (filter g l) = filter (fun x => g x && f x) l.
Proof. induction l as [|x t IH]; cbn; [reflexivity|]. destruct (g x); cbn; [destruct (f x); rewrite IH; reflexivity|exact IH]. Qed.

Lemma filter_id {A} (l : list A) : l = filter (fun _ => true) l.
Proof. induction l as [|x t IH]; cbn; [reflexivity|]. rewrite <- IH. reflexivity. Qed.

Lemma filt_flag nm pr ab : filt (aeval_flag nm pr ab).
Proof.
  intros l. unfold aeval_flag. destruct (afind (matches_arg nm false) l) as [[i a]|]; cbn [snd].
  - eexists. reflexivity.
  - destruct ab; cbn; eexists; apply filter_id.
Qed.
Lemma filt_arg nm ty : filt (aeval_arg nm ty).
Proof.
  intros l. unfold aeval_arg. destruct (afind (matches_arg nm false) l) as [[i a]|]; [|cbn; eexists; apply filter_id].
  destruct (aget (S i) l) as [[c adj os|n' adj os|w|w|w]|]; cbn [snd]; try (eexists; apply filter_id);
    rewrite aconvert_snd'; unfold aremove; rewrite filter_filter; eexists; reflexivity.
Qed.
Lemma filt_pos ty : filt (aeval_pos ty).
Proof.
  intros l. unfold aeval_pos. destruct (afind is_word l) as [[i a]|]; [|cbn; eexists; apply filter_id].
  destruct a; cbn [snd]; try (eexists; apply filter_id); rewrite aconvert_snd'; eexists; reflexivity.
Qed.

Section FiltW.
Variable ev : lv -> ares * lv.
Hypothesis Hf : filt ev.

Lemma filt_parse_option len l : exists f, snd (aparse_option ev len l) = filter f l.
Proof.
  unfold aparse_option. destruct (Hf l) as [f E]. destruct (ev l) as [r l1]. cbn [snd] in E. subst l1.
  destruct r as [v|m c|]; cbn.
  - destruct (lt_len _ len); cbn; eauto.
  - destruct (_ || _); cbn; [eexists; apply filter_id|eauto].
  - eauto.
Qed.

Lemma filt_many_loop fuel : forall len l acc, exists f, snd (amany_loop ev fuel len l acc) = filter f l.
Proof.
  induction fuel as [|k IH]; intros len l acc; cbn [amany_loop]; [cbn; eexists; apply filter_id|].
  destruct (filt_parse_option len l) as [f E]. destruct (aparse_option ev len l) as [[o len'] l1]. cbn [snd] in E. subst l1.
  destruct o; cbn; eauto. destruct (IH len' (filter f l) (v :: acc)) as [g Eg]. rewrite Eg, filter_filter. eauto.
Qed.

Lemma filt_count_loop fuel : forall len l cur k last, exists f, snd (acount_loop ev fuel len l cur k last) = filter f l.
Proof.
  induction fuel as [|k0 IH]; intros len l cur k last; cbn [acount_loop]; [cbn; eexists; apply filter_id|].
  destruct (filt_parse_option len l) as [f E]. destruct (aparse_option ev len l) as [[o len'] l1]. cbn [snd] in E. subst l1.
  destruct o; cbn; eauto. destruct (Nat.eqb cur _); cbn; eauto.
  destruct (IH len' (filter f l) (length (filter f l)) (S k) (Some v)) as [g Eg]. rewrite Eg, filter_filter. eauto.
Qed.

Lemma filt_optional : filt (aoptional ev).
Proof.
  intros l. unfold aoptional. destruct (filt_parse_option None l) as [f E].
  destruct (aparse_option ev None l) as [[o len'] l1]. destruct o; cbn in *; eauto.
Qed.
Lemma filt_many fuel : filt (amany fuel ev).
Proof.
  intros l. unfold amany. destruct (filt_many_loop fuel None l []) as [f E].
  destruct (amany_loop ev fuel None l []) as [[r acc] l1]. destruct r; cbn in *; eauto.
Qed.
Lemma filt_some fuel : filt (asome fuel ev).
Proof.
  intros l. unfold asome. destruct (filt_many_loop fuel None l []) as [f E].
  destruct (amany_loop ev fuel None l []) as [[r acc] l1]. destruct r; cbn in *; eauto. destruct acc; cbn; eauto.
Qed.
Lemma filt_count fuel : filt (acount fuel ev).
Proof.
  intros l. unfold acount. destruct (filt_count_loop fuel None l (length l) 0 None) as [f E].
  destruct (acount_loop ev fuel None l (length l) 0 None) as [[[r k] la] l1]. destruct r; cbn in *; eauto.
Qed.
Lemma filt_last fuel : filt (alast fuel ev).
Proof.
  intros l. unfold alast. destruct (filt_count_loop fuel None l (length l) 0 None) as [f E].
  destruct (acount_loop ev fuel None l (length l) 0 None) as [[[r k] la] l1]. cbn [snd] in E. subst l1.
  destruct r; cbn; eauto. destruct la; cbn; eauto. destruct (Hf (filter f l)) as [g Eg]. rewrite Eg, filter_filter. eauto.
Qed.
Lemma filt_fallback v : filt (afallback ev v).
Proof.
  intros l. unfold afallback. destruct (Hf l) as [f E]. destruct (ev l) as [r l1]. cbn [snd] in E. subst l1.
  destruct r as [x|m c|]; cbn; eauto. destruct c; cbn; eexists; apply filter_id.
Qed.
End FiltW.

Lemma filt_item fuel it : filt (aeval fuel (compile_item it)).
Proof.
  destruct it as [n|n p a|n p|n|n p|n mv ty ar]; cbn [compile_item aeval].
  - apply filt_flag.
  - apply filt_flag.
  - apply filt_flag.
  - apply filt_count. apply filt_flag.
  - apply filt_many. apply filt_flag.
  - destruct ar; cbn [aeval].
    + apply filt_arg.
    + apply filt_optional. apply filt_arg.
    + apply filt_many. apply filt_arg.
    + apply filt_some. apply filt_arg.
    + apply filt_fallback. apply filt_arg.
    + apply filt_last. apply filt_arg.
Qed.

Lemma filt_uniq ev l : filt ev -> uniq l -> uniq (snd (ev l)).
Proof. intros Hf U. destruct (Hf l) as [f E]. rewrite E. apply uniq_filter. exact U. Qed.

Lemma filt_incl ev l : filt ev -> incl (snd (ev l)) l.
Proof. intros Hf x Hx. destruct (Hf l) as [f E]. rewrite E in Hx. apply filter_In in Hx. apply Hx. Qed.

(* the indices of a well-formed tagged list are distinct *)
Lemma WF_uniq items lo t : WF items lo t -> uniq (untag t).
Proof.
  unfold uniq. induction 1 as [lo|lo i a k it t Hl Hk Ho Ha W IH|lo i a k it b w t Hl Hk Ho Ha Hv W IH|lo i a t Hl Hw W IH|lo i a t Hl Hfo W IH];
    cbn [untag map fst].
  - constructor.
  - constructor; [|exact IH]. intros Hin. apply in_map_iff in Hin. destruct Hin as (y & E & Hy).
    pose proof (WF_above items _ _ W y Hy). lia.
  - constructor; [|constructor; [|exact IH]].
    + intros [E|Hin]; [lia|]. apply in_map_iff in Hin. destruct Hin as (y & E & Hy). pose proof (WF_above items _ _ W y Hy). lia.
    + intros Hin. apply in_map_iff in Hin. destruct Hin as (y & E & Hy). pose proof (WF_above items _ _ W y Hy). lia.
  - constructor; [|exact IH]. intros Hin. apply in_map_iff in Hin. destruct Hin as (y & E & Hy).
    pose proof (WF_above items _ _ W y Hy). lia.
  - constructor; [|exact IH]. intros Hin. apply in_map_iff in Hin. destruct Hin as (y & E & Hy).
    pose proof (WF_above items _ _ W y Hy). lia.
Qed.

(* ------------------------------------------------------------------ S3. the positional suffix, read backwards *)
Lemma acon_go_err_not_ok evs : forall l acc e v l', acon_go evs l acc (Some e) <> (AOk v, l').
Proof.
  induction evs as [|ev t IH]; intros l acc [m c] v l'; cbn [acon_go]; [discriminate|].
  destruct (ev l) as [r l1]. destruct r; try apply IH. discriminate.
Qed.

Section PosInv.
Variable items : list citem.

Lemma word_run ty lo t :
  WF items lo t -> all_words t ->
  exists vs b l', Run (aeval_pos ty) (untag t) vs b l' /\
    (b = false -> conv_words ty (words_of t) = Some vs /\ l' = []).
Proof.
  intros W. induction W as [lo|lo i a j it t Hl Hk Ho Ha W IH|lo i a j it b w t Hl Hk Ho Ha Hv W IH|lo i a t Hl Hw W IH|lo i a t Hl Hfo W IH];
    intros Aw.
  - exists [], false, []. split; [apply Run_missing; reflexivity|]. intros _. split; reflexivity.
  - specialize (Aw _ (or_introl eq_refl)). discriminate.
  - specialize (Aw _ (or_introl eq_refl)). discriminate.
  - destruct (IH (all_words_tail _ _ Aw)) as (vs & b & l' & R & Hb).
    cbn [untag map fst]. fold (untag t).
    pose proof (pos_head ty i a (untag t) Hw (WF_above' items _ _ W)) as Eh. unfold aconvert in Eh.
    destruct (convert ty (word_of a)) as [v|e] eqn:Cv.
    + exists (v :: vs), b, l'. split.
      * eapply Run_cons; [exact Eh|cbn; lia|exact R].
      * intros Eb. destruct (Hb Eb) as [Hc El]. split; [|exact El].
        cbn [words_of flat_map snd fst app]. fold (words_of t). cbn [conv_words]. unfold conv_word. rewrite Cv, Hc. reflexivity.
    + exists [], true, (untag t). split; [apply Run_error; exact Eh|]. discriminate.
  - specialize (Aw _ (or_introl eq_refl)). discriminate.
Qed.

Lemma amany_ok_inv ev fuel l v l' :
  amany fuel ev l = (AOk v, l') ->
  forall vs b l1, Run ev l vs b l1 -> b = false.
Proof.
  intros E vs b l1 R. destruct b; [|reflexivity]. exfalso.
  unfold amany in E. pose proof (amany_run_err ev l vs l1 R fuel None []) as N.
  destruct (amany_loop ev fuel None l []) as [[r acc] l2]. cbn [fst] in N.
  destruct r as [x|m c|]; try discriminate. apply (N x); [left; reflexivity|reflexivity].
Qed.

Lemma asome_ok_inv ev fuel l v l' :
  asome fuel ev l = (AOk v, l') ->
  forall vs b l1, Run ev l vs b l1 -> b = false.
Proof.
  intros E vs b l1 R. destruct b; [|reflexivity]. exfalso.
  unfold asome in E. pose proof (amany_run_err ev l vs l1 R fuel None []) as N.
  destruct (amany_loop ev fuel None l []) as [[r acc] l2]. cbn [fst] in N.
  destruct r as [x|m c|]; try discriminate. apply (N x); [left; reflexivity|reflexivity].
Qed.

Lemma pos_inv fuel ps : forall lo t acc v,
  WF items lo t -> all_words t -> length t < fuel ->
  acon_go (map (aeval fuel) (map compile_pos ps)) (untag t) acc None = (AOk v, []) ->
  exists pv, pos_values ps (words_of t) = Some pv /\ v = VTuple (rev (rev pv ++ acc)).
Proof.
  induction ps as [|p ps IH]; intros lo t acc v W Aw Hf E.
  - cbn in E. inversion E as [[Ev Et]]. destruct t; [|discriminate]. exists []. split; reflexivity.
  - cbn [map acon_go] in E. unfold compile_pos at 1 in E. cbn [pos_values].
    destruct (cp_par p) eqn:Par.
    + (* required *)
      destruct W as [lo|lo i a j it t Hl Hk Ho Ha W|lo i a j it b w t Hl Hk Ho Ha Hvv W|lo i a t Hl Hw W|lo i a t Hl Hfo W].
      * cbn in E. exfalso. eapply acon_go_err_not_ok. exact E.
      * specialize (Aw _ (or_introl eq_refl)). discriminate.
      * specialize (Aw _ (or_introl eq_refl)). discriminate.
      * cbn [aeval untag map fst] in E. fold (untag t) in E.
        rewrite (pos_head (cp_ty p) i a (untag t) Hw (WF_above' items _ _ W)) in E. unfold aconvert in E.
        cbn [words_of flat_map snd fst app]. fold (words_of t). unfold conv_word.
        destruct (convert (cp_ty p) (word_of a)) as [v1|e]; [|exfalso; eapply acon_go_err_not_ok; exact E].
        destruct (IH (S i) t (v1 :: acc) v W (all_words_tail _ _ Aw) ltac:(cbn in Hf; lia) E) as (pv & Hp & Hv).
        rewrite Hp. exists (v1 :: pv). split; [reflexivity|]. cbn [rev]. rewrite <- app_assoc. exact Hv.
      * specialize (Aw _ (or_introl eq_refl)). discriminate.
    + (* optional *)
      destruct W as [lo|lo i a j it t Hl Hk Ho Ha W|lo i a j it b w t Hl Hk Ho Ha Hvv W|lo i a t Hl Hw W|lo i a t Hl Hfo W].
      * cbn [aeval untag map] in E. unfold aoptional, aparse_option in E. cbn in E. rewrite Nat.eqb_refl in E. cbn in E.
        change (@nil (nat * arg)) with (untag []) in E.
        destruct (IH lo [] (VNone :: acc) v (WF_nil items lo) (fun _ F => match F with end) ltac:(cbn in *; lia) E) as (pv & Hp & Hv).
        cbn [words_of flat_map] in *. rewrite Hp. exists (VNone :: pv). split; [reflexivity|].
        cbn [rev]. rewrite <- app_assoc. exact Hv.
      * specialize (Aw _ (or_introl eq_refl)). discriminate.
      * specialize (Aw _ (or_introl eq_refl)). discriminate.
      * cbn [aeval untag map fst] in E. fold (untag t) in E. unfold aoptional, aparse_option in E.
        change (fun l : lv => aeval_pos (cp_ty p) l) with (aeval_pos (cp_ty p)) in E.
        rewrite (pos_head (cp_ty p) i a (untag t) Hw (WF_above' items _ _ W)) in E. unfold aconvert in E.
        cbn [words_of flat_map snd fst app]. fold (words_of t). unfold conv_word.
        destruct (convert (cp_ty p) (word_of a)) as [v1|e].
        -- cbn [lt_len] in E.
           destruct (IH (S i) t (VSome v1 :: acc) v W (all_words_tail _ _ Aw) ltac:(cbn in Hf; lia) E) as (pv & Hp & Hv).
           rewrite Hp. exists (VSome v1 :: pv). split; [reflexivity|]. cbn [rev]. rewrite <- app_assoc. exact Hv.
        -- cbn in E. exfalso. eapply acon_go_err_not_ok. exact E.
      * specialize (Aw _ (or_introl eq_refl)). discriminate.
    + (* many *)
      cbn [aeval] in E. change (fun l : lv => aeval_pos (cp_ty p) l) with (aeval_pos (cp_ty p)) in E.
      destruct (word_run (cp_ty p) lo t W Aw) as (vs & b & l1 & R & Hb).
      destruct (amany fuel (aeval_pos (cp_ty p)) (untag t)) as [r l2] eqn:Em.
      destruct r as [x|m c|]; [| exfalso; eapply acon_go_err_not_ok; exact E | discriminate].
      pose proof (amany_ok_inv _ _ _ _ _ Em _ _ _ R) as Eb. subst b. destruct (Hb eq_refl) as [Hc El]. subst l1.
      rewrite (many_all _ fuel _ _ _ (run_pops _ _ _ _ R)) in Em; [|rewrite untag_length; exact Hf].
      inversion Em; subst x l2. rewrite Hc.
      change (@nil (nat * arg)) with (untag []) in E.
      destruct (IH lo [] (VList vs :: acc) v (WF_nil items lo) (fun _ F => match F with end) ltac:(cbn in *; lia) E) as (pv & Hp & Hv).
      cbn [words_of flat_map] in Hp. rewrite Hp. exists (VList vs :: pv). split; [reflexivity|].
      cbn [rev]. rewrite <- app_assoc. exact Hv.
    + (* some *)
      cbn [aeval] in E. change (fun l : lv => aeval_pos (cp_ty p) l) with (aeval_pos (cp_ty p)) in E.
      destruct (word_run (cp_ty p) lo t W Aw) as (vs & b & l1 & R & Hb).
      destruct (asome fuel (aeval_pos (cp_ty p)) (untag t)) as [r l2] eqn:Em.
      destruct r as [x|m c|]; [| exfalso; eapply acon_go_err_not_ok; exact E | discriminate].
      pose proof (asome_ok_inv _ _ _ _ _ Em _ _ _ R) as Eb. subst b. destruct (Hb eq_refl) as [Hc El]. subst l1.
      destruct vs as [|v0 vs].
      { exfalso. apply run_pops in R. apply pops_none in R. destruct R as [R _].
        unfold asome in Em. destruct fuel as [|f]; [lia|]. cbn [amany_loop] in Em. unfold aparse_option in Em.
        rewrite R in Em. cbn in Em. rewrite Nat.eqb_refl in Em. cbn in Em. discriminate. }
      rewrite (some_all _ fuel _ _ _ (run_pops _ _ _ _ R)) in Em; [|discriminate|rewrite untag_length; exact Hf].
      inversion Em; subst x l2.
      destruct (words_of t) as [|w0 ws0] eqn:Ew; [cbn in Hc; discriminate|]. rewrite Hc.
      change (@nil (nat * arg)) with (untag []) in E.
      destruct (IH lo [] (VList (v0 :: vs) :: acc) v (WF_nil items lo) (fun _ F => match F with end) ltac:(cbn in *; lia) E) as (pv & Hp & Hv).
      cbn [words_of flat_map] in Hp. rewrite Hp. exists (VList (v0 :: vs) :: pv). split; [reflexivity|].
      cbn [rev]. rewrite <- app_assoc. exact Hv.
Qed.
End PosInv.

(* ------------------------------------------------------------------ S4. the named fields, read backwards *)
Section ItemsInv.
Variable items : list citem.
Hypothesis Hdis : disjoint_names items.

Lemma items_inv fuel lo t0 rest v :
  WF items lo t0 -> length t0 < fuel ->
  (forall x, is_key (snd x) = true -> Forall (safe x) rest) ->
  forall its k acc,
    (forall p it, nth_error its p = Some it -> nth_error items (k + p) = Some it) ->
    acon_go (map (aeval fuel) (map compile_item its) ++ rest) (untag (filter (keep k) t0)) acc None = (AOk v, []) ->
    exists vs, items_values its k (occs_of t0) = Some vs /\
      acon_go rest (untag (filter (keep (k + length its)) t0)) (rev vs ++ acc) None = (AOk v, []).
Proof.
  intros W Hf Hrest. induction its as [|it its IH]; intros k acc Hn E.
  - exists []. split; [reflexivity|]. cbn in *. rewrite Nat.add_0_r. exact E.
  - cbn [map app acon_go] in E.
    assert (Hk : nth_error items k = Some it) by (rewrite <- (Nat.add_0_r k); apply Hn; reflexivity).
    set (tk := filter (keep k) t0) in *.
    assert (Wk : WF items lo tk) by (apply WF_filter; exact W).
    assert (Kk : kept k tk) by apply kept_filter.
    assert (Lk : length (untag tk) < fuel).
    { rewrite untag_length. pose proof (length_filter_le (keep k) t0). unfold tk. lia. }
    destruct (aeval fuel (compile_item it) (untag tk)) as [r l1] eqn:St.
    destruct r as [v1|m c|]; [| exfalso; eapply acon_go_err_not_ok; exact E | discriminate].
    destruct (item_inv items Hdis fuel k it lo tk v1 l1 Hk Wk Kk Lk St) as [[Hv El]|Lo].
    + subst l1. unfold tk in E. rewrite (filter_keep_S k t0) in E.
      destruct (IH (S k) (v1 :: acc)) as (vs & Hvs & Er).
      * intros p it' Hp. replace (S k + p) with (k + S p) by lia. apply Hn. exact Hp.
      * exact E.
      * exists (v1 :: vs). split.
        -- cbn [items_values]. unfold tk in Hv. rewrite (kvals_filter items k k lo t0 W (le_n k)) in Hv.
           unfold kvals in Hv. rewrite Hv, Hvs. reflexivity.
        -- cbn [length rev]. replace (k + S (length its)) with (S k + length its) by lia.
           rewrite <- app_assoc. exact Er.
    + (* an occurrence the item left behind is left behind by every later field *)
      exfalso. destruct Lo as (x & Hx & Mx).
      assert (Kx : is_key (snd x) = true) by (eapply match_is_key; exact Mx).
      assert (U1 : uniq l1).
      { pose proof (filt_uniq _ (untag tk) (filt_item fuel it) (WF_uniq items lo tk Wk)) as U. rewrite St in U. exact U. }
      assert (Fs : Forall (safe x) (map (aeval fuel) (map compile_item its) ++ rest)).
      { apply Forall_app. split; [|apply Hrest; exact Kx].
        rewrite Forall_forall. intros ev Hev. apply in_map_iff in Hev. destruct Hev as (q & <- & Hq).
        apply in_map_iff in Hq. destruct Hq as (it' & <- & Hit').
        apply item_safe; [exact Kx|].
        destruct (matches_arg (item_named it') false (snd x)) eqn:M'; [|reflexivity]. exfalso.
        apply In_nth_error in Hit'. destruct Hit' as [p Hp].
        pose proof (Hn (S p) it' Hp) as Hp'.
        pose proof (Hdis (snd x) k (k + S p) it it' Hk Hp' Mx M'). lia. }
      pose proof (acon_go_safe x _ Fs l1 (v1 :: acc) None U1 Hx) as Hin. rewrite E in Hin. exact Hin.
Qed.
End ItemsInv.

(* ------------------------------------------------------------------ S5. assembly *)
Lemma run_sub_body_ok env inf m s r s1 v :
  outcome_of (fst (run_sub_body env inf m s (r, s1))) = OutOk v -> r = ROk v /\ first_item_ix s1 = None.
Proof.
  unfold run_sub_body. destruct r as [x|e|w|]; cbn [andb]; try (cbn; discriminate).
  - destruct (first_item_ix s1); [|cbn; intros H; inversion H; auto].
    destruct (info_eval env inf s1) as [[[d|ver]|] s2]; [destruct (invariant_ok m)| |]; cbn; discriminate.
  - destruct (match e with MsgParseFailure (FStdout _) => false | _ => true end && i_help_if_no_args inf && Nat.eqb (remaining s) 0).
    + destruct (invariant_ok m); cbn; discriminate.
    + destruct e; try (destruct (info_eval env inf s1) as [[[d|ver]|] s2]; [destruct (invariant_ok m)| |]; cbn; discriminate).
      destruct f; cbn; discriminate.
Qed.

Lemma level_sound_flat env n items anc tail ts ix s s' v a f :
  flat_ok items tail -> Sim n s (live_from ix ts) -> length ts <= n ->
  scan items anc tail ts = ScDone a ->
  eval env (compile (Level items tail)) s = (ROk v, s') -> first_item_ix s' = None ->
  denote_level (S f) (Level items tail) anc ts = Accept v.
Proof.
  intros Hok S0 Hlen Sc Ee Hfi. pose proof Hok as (Hdis & Hnames & Hl2).
  destruct (compile_flat items tail Hok) as [Ec Hflat].
  destruct (scan_wf items anc tail _ ts (le_n _) ix a Sc) as (W & Ho & Hw & Hu & Hnf).
  set (t0 := tag_from ix ts (at_roles a)) in *.
  assert (Hlt0 : length t0 < S (S n)).
  { rewrite <- (untag_length t0), Hu. pose proof (live_from_le ts ix) as L. lia. }
  (* the abstract run *)
  destruct (eval_sim env n (compile (Level items tail)) Hflat s _ S0) as [R S1].
  rewrite Ee in R, S1. cbn [fst snd] in R, S1.
  destruct (aeval (S (S n)) (compile (Level items tail)) (live_from ix ts)) as [ar l'] eqn:Ha. cbn [fst snd] in R, S1.
  destruct ar as [v'|m c|]; cbn in R; try contradiction. subst v'.
  assert (l' = []).
  { unfold first_item_ix in Hfi. rewrite (find_item_view _ s' l' (fun _ => true) S1) in Hfi.
    destruct l' as [|[i x] l']; [reflexivity|]. cbn in Hfi. discriminate. }
  subst l'. rewrite <- Hu in Ha.
  rewrite Ec in Ha. cbn [aeval] in Ha. rewrite aevals_plist, map_app in Ha.
  rewrite <- (filter_keep_0 t0) in Ha at 1.
  destruct (items_inv items Hdis (S (S n)) ix t0 (map (aeval (S (S n))) (tail_fields tail)) v W Hlt0) with (its := items) (k := 0) (acc := @nil val)
    as (vs & Hvs & Er).
  { intros x Kx. rewrite Forall_forall. intros ev Hev. apply in_map_iff in Hev. destruct Hev as (q & <- & Hq).
    destruct tail as [|ps|cs]; cbn [tail_fields] in Hq; try contradiction.
    apply in_map_iff in Hq. destruct Hq as (p & <- & _). apply posf_safe. exact Kx. }
  { intros p it H. exact H. }
  { exact Ha. }
  cbn [Nat.add] in Er. rewrite app_nil_r in Er.
  cbn [denote_level]. rewrite Sc. rewrite <- Ho, Hvs.
  set (tw := filter (keep (length items)) t0) in *.
  assert (Ww : WF items ix tw) by (apply WF_filter; exact W).
  assert (Aw : all_words tw) by (eapply filter_all_words; [exact W|exact Hnf]).
  assert (Hww : words_of tw = at_words a) by (unfold tw; rewrite words_filter; exact Hw).
  destruct tail as [|ps|cs]; [| |contradiction].
  - cbn [tail_fields map acon_go] in Er. inversion Er as [[Ev Et]].
    assert (tw = []) by (destruct tw; [reflexivity|discriminate]).
    rewrite <- Hww, H. cbn. rewrite rev_involutive. reflexivity.
  - cbn [tail_fields] in Er.
    destruct (pos_inv items (S (S n)) ps ix tw (rev vs) v Ww Aw) as (pv & Hp & Hv).
    + unfold tw. pose proof (length_filter_le (keep (length items)) t0). lia.
    + exact Er.
    + rewrite <- Hww, Hp, Hv. rewrite rev_app_distr, !rev_involutive. reflexivity.
Qed.

(* every token of the vector is attributed to this level: no ambiguity, no rejection by the scan *)
Definition attributed (items : list citem) (tail : ctail) (argv : list bytes) : Prop :=
  let st := short_tables (compile_options (Level items tail)) in
  let t := tokenize (fst st) (snd st) argv in
  t_ambiguity t = None /\ exists a, scan items [] tail (mark_tokens t) = ScDone a.

(* C01, the converse on attributed vectors: Ok v is returned only for sentences whose value is v *)
Theorem denote_sound_flat feat env items tail argv v :
  flat_ok items tail -> attributed items tail argv ->
  run_inner feat env (compile_options (Level items tail)) None argv = OutOk v ->
  denote (Level items tail) argv = Accept v.
Proof.
  intros Hok [Ea [a Sc]] Hr.
  unfold denote. unfold run_inner, run_inner_state, initial_state in Hr.
  destruct (short_tables (compile_options (Level items tail))) as [sf sa]. cbn [fst snd] in Ea, Sc.
  pose proof (construct_sim sf sa None argv) as S0. cbn zeta in S0.
  pose proof (construct_amb sf sa None argv) as Hamb.
  set (t := tokenize sf sa argv) in *.
  destruct (construct sf sa None argv) as [s0 amb0]. cbn [fst snd] in S0, Hamb. subst amb0.
  rewrite Ea in Hr |- *.
  assert (Hlen : length (mark_tokens t) = length (t_items t)) by (unfold mark_tokens; apply mark_go_length).
  unfold compile_options in Hr. rewrite run_sub_eq in Hr.
  destruct (eval env (compile (Level items tail)) s0) as [r s1] eqn:Ee.
  apply run_sub_body_ok in Hr. destruct Hr as [-> Hfi].
  rewrite <- Hlen.
  eapply (level_sound_flat env _ items [] tail (mark_tokens t) 0 s0 s1 v a _ Hok S0); [lia|exact Sc|exact Ee|exact Hfi].
Qed.

(* equivalently: what the grammar rejects on an attributed vector is never returned as Ok *)
Corollary denote_reject_not_ok feat env items tail argv :
  flat_ok items tail -> attributed items tail argv ->
  denote (Level items tail) argv = Reject ->
  forall v, run_inner feat env (compile_options (Level items tail)) None argv <> OutOk v.
Proof.
  intros Hok Ha Hd v Hr. rewrite (denote_sound_flat feat env items tail argv v Hok Ha Hr) in Hd. discriminate.
Qed.

(* together with denote_accept_flat: on attributed vectors the parser and the grammar agree exactly *)
Corollary denote_iff_flat feat env items tail argv v :
  flat_ok items tail -> attributed items tail argv ->
  (denote (Level items tail) argv = Accept v <->
   run_inner feat env (compile_options (Level items tail)) None argv = OutOk v).
Proof.
  intros Hok Ha. split; [apply denote_accept_flat; exact Hok|apply denote_sound_flat; assumption].
Qed.

(* ------------------------------------------------------------------ S6. stuck tokens: what the scan rejects stays on the line *)
(* survival under an invariant of the list that every filtering preserves *)
Section Stuck.
Variable Inv : lv -> Prop.
Hypothesis Inv_filt : forall f l, uniq l -> Inv l -> Inv (filter f l).
Variable x : nat * arg.

Definition safeI (ev : lv -> ares * lv) : Prop := forall l, uniq l -> Inv l -> In x l -> In x (snd (ev l)).
Definition goodI (ev : lv -> ares * lv) : Prop := filt ev /\ safeI ev.

Lemma safe_safeI ev : safe x ev -> safeI ev.
Proof. intros H l U _ Hx. apply (H l U Hx). Qed.

Lemma filt_step ev l : filt ev -> uniq l -> Inv l -> uniq (snd (ev l)) /\ Inv (snd (ev l)).
Proof. intros Hf U I. destruct (Hf l) as [f E]. rewrite E. split; [apply uniq_filter; exact U|apply Inv_filt; assumption]. Qed.

Section W.
Variable ev : lv -> ares * lv.
Hypothesis Hg : goodI ev.

Lemma parse_option_safeI len l : uniq l -> Inv l -> In x l ->
  uniq (snd (aparse_option ev len l)) /\ Inv (snd (aparse_option ev len l)) /\ In x (snd (aparse_option ev len l)).
Proof.
  intros U I Hx. destruct Hg as [Hf Hs]. unfold aparse_option.
  destruct (filt_step ev l Hf U I) as [U1 I1]. pose proof (Hs l U I Hx) as X1.
  destruct (ev l) as [r l1]. cbn [snd] in *.
  destruct r as [v|m c|]; cbn; auto.
  - destruct (lt_len (length l1) len); cbn; auto.
  - destruct ((m && Nat.eqb (length l) (length l1)) || (negb m && c)); cbn; auto.
Qed.

Lemma many_loop_safeI fuel : forall len l acc, uniq l -> Inv l -> In x l ->
  In x (snd (amany_loop ev fuel len l acc)).
Proof.
  induction fuel as [|f IH]; intros len l acc U I Hx; cbn [amany_loop]; [cbn; auto|].
  destruct (parse_option_safeI len l U I Hx) as (U1 & I1 & X1). destruct (aparse_option ev len l) as [[o len'] l1]. cbn [snd] in *.
  destruct o; cbn; auto.
Qed.

Lemma count_loop_safeI fuel : forall len l cur k last, uniq l -> Inv l -> In x l ->
  uniq (snd (acount_loop ev fuel len l cur k last)) /\ Inv (snd (acount_loop ev fuel len l cur k last)) /\
  In x (snd (acount_loop ev fuel len l cur k last)).
Proof.
  induction fuel as [|f IH]; intros len l cur k last U I Hx; cbn [acount_loop]; [cbn; auto|].
  destruct (parse_option_safeI len l U I Hx) as (U1 & I1 & X1). destruct (aparse_option ev len l) as [[o len'] l1]. cbn [snd] in *.
  destruct o; cbn; auto. destruct (Nat.eqb cur (length l1)); cbn; auto.
Qed.

Lemma optional_goodI : goodI (aoptional ev).
Proof.
  split; [apply filt_optional; apply Hg|]. intros l U I Hx. unfold aoptional.
  destruct (parse_option_safeI None l U I Hx) as (U1 & I1 & X1).
  destruct (aparse_option ev None l) as [[o len'] l1]. destruct o; cbn in *; auto.
Qed.
Lemma many_goodI fuel : goodI (amany fuel ev).
Proof.
  split; [apply filt_many; apply Hg|]. intros l U I Hx. unfold amany.
  pose proof (many_loop_safeI fuel None l [] U I Hx) as X1.
  destruct (amany_loop ev fuel None l []) as [[r acc] l1]. destruct r; cbn in *; auto.
Qed.
Lemma some_goodI fuel : goodI (asome fuel ev).
Proof.
  split; [apply filt_some; apply Hg|]. intros l U I Hx. unfold asome.
  pose proof (many_loop_safeI fuel None l [] U I Hx) as X1.
  destruct (amany_loop ev fuel None l []) as [[r acc] l1]. destruct r; cbn in *; auto. destruct acc; cbn; auto.
Qed.
Lemma count_goodI fuel : goodI (acount fuel ev).
Proof.
  split; [apply filt_count; apply Hg|]. intros l U I Hx. unfold acount.
  destruct (count_loop_safeI fuel None l (length l) 0 None U I Hx) as (U1 & I1 & X1).
  destruct (acount_loop ev fuel None l (length l) 0 None) as [[[r k] la] l1]. destruct r; cbn in *; auto.
Qed.
Lemma last_goodI fuel : goodI (alast fuel ev).
Proof.
  split; [apply filt_last; apply Hg|]. intros l U I Hx. unfold alast.
  destruct (count_loop_safeI fuel None l (length l) 0 None U I Hx) as (U1 & I1 & X1).
  destruct (acount_loop ev fuel None l (length l) 0 None) as [[[r k] la] l1]. cbn [snd] in *.
  destruct r; cbn; auto. destruct la; cbn; auto. destruct Hg as [_ Hs]. apply Hs; assumption.
Qed.
Lemma fallback_goodI v : goodI (afallback ev v).
Proof.
  split; [apply filt_fallback; apply Hg|]. intros l U I Hx. unfold afallback. destruct Hg as [Hf Hs].
  pose proof (Hs l U I Hx) as X1. destruct (ev l) as [r l1]. cbn [snd] in *.
  destruct r as [y|m c|]; cbn; auto. destruct c; cbn; auto.
Qed.
End W.

Lemma acon_go_safeI evs : Forall goodI evs -> forall l acc err, uniq l -> Inv l -> In x l ->
  In x (snd (acon_go evs l acc err)).
Proof.
  induction 1 as [|ev t H Ht IH]; intros l acc err U I Hx; cbn [acon_go].
  - destruct err as [[m c]|]; exact Hx.
  - destruct H as [Hf Hs]. destruct (filt_step ev l Hf U I) as [U1 I1]. pose proof (Hs l U I Hx) as X1.
    destruct (ev l) as [r l1]. cbn [snd] in *. destruct r; cbn; auto.
Qed.

(* named fields: a flag-like item evaluates through aeval_flag, an argument through aeval_arg *)
Lemma item_goodI fuel it :
  (is_argument it = false -> forall pr ab, goodI (aeval_flag (item_named it) pr ab)) ->
  (is_argument it = true -> forall ty, goodI (aeval_arg (item_named it) ty)) ->
  goodI (aeval fuel (compile_item it)).
Proof.
  intros Hfl Har. destruct it as [n|n p a|n p|n|n p|n mv ty ar]; cbn [compile_item item_named is_argument] in *.
  - apply Hfl; reflexivity.
  - apply Hfl; reflexivity.
  - apply Hfl; reflexivity.
  - cbn [aeval]. apply count_goodI. apply Hfl; reflexivity.
  - cbn [aeval]. apply many_goodI. apply Hfl; reflexivity.
  - destruct ar; cbn [aeval].
    + apply Har; reflexivity.
    + apply optional_goodI. apply Har; reflexivity.
    + apply many_goodI. apply Har; reflexivity.
    + apply some_goodI. apply Har; reflexivity.
    + apply fallback_goodI. apply Har; reflexivity.
    + apply last_goodI. apply Har; reflexivity.
Qed.

Lemma posf_goodI fuel p : (forall ty, goodI (aeval_pos ty)) -> goodI (aeval fuel (compile_pos p)).
Proof.
  intros Hp. unfold compile_pos. destruct (cp_par p); cbn [aeval].
  - apply Hp.
  - apply optional_goodI. apply Hp.
  - apply many_goodI. apply Hp.
  - apply some_goodI. apply Hp.
Qed.
End Stuck.

(* ------------------------------------------------------------------ S7. the primitives on stuck tokens *)
Lemma in_aget l i a : uniq l -> In (i, a) l -> aget i l = Some a.
Proof.
  intros U Hin. unfold aget. destruct (find (fun p => Nat.eqb (fst p) i) l) as [p|] eqn:F.
  - apply find_some in F. destruct F as [Hp E]. apply Nat.eqb_eq in E.
    assert (Hpe : p = (i, a)) by (apply (uniq_same l); auto). rewrite Hpe. reflexivity.
  - exfalso. pose proof (find_none _ _ F _ Hin) as N. cbn in N. rewrite Nat.eqb_refl in N. discriminate.
Qed.

Lemma aget_filter f l i b : uniq l -> aget i (filter f l) = Some b -> aget i l = Some b.
Proof. intros U H. apply aget_in in H. apply filter_In in H. apply in_aget; [exact U|apply H]. Qed.

Lemma flag_goodI (Inv : lv -> Prop) x nm pr ab :
  matches_arg nm false (snd x) = false -> goodI Inv x (aeval_flag nm pr ab).
Proof.
  intros Mx. split; [apply filt_flag|]. intros l U _ Hx. unfold aeval_flag.
  destruct (afind (matches_arg nm false) l) as [[i a]|] eqn:F; cbn [snd].
  - apply afind_in in F. destruct F as [Hin Ma]. apply remove_keeps; auto. intros y Hy Ey E. subst y.
    assert (x = (i, a)) by (apply (uniq_same l); auto). subst x. cbn in Mx. congruence.
  - destruct ab; cbn; auto.
Qed.

(* the two removals an argument performs leave every other token *)
Lemma arg_removal_keeps l x i a b :
  uniq l -> In x l -> In (i, a) l -> In (S i, b) l -> x <> (i, a) -> x <> (S i, b) ->
  In x (aremove (S i) (aremove i l)).
Proof.
  intros U Hx Hi Hb N1 N2. apply remove_keeps; [apply uniq_remove; exact U| |].
  - apply remove_keeps; auto. intros y Hy Ey E. subst y. apply N1. apply (uniq_same l); auto.
  - intros y Hy Ey E. subst y. apply aremove_incl in Hy. apply N2. apply (uniq_same l); auto.
Qed.

Lemma arg_goodI_gen (Inv : lv -> Prop) x nm ty :
  (forall l i a b w, uniq l -> Inv l -> In x l -> In (i, a) l -> matches_arg nm false a = true ->
     afind (matches_arg nm false) l = Some (i, a) ->
     In (S i, b) l -> is_value b = Some w -> x <> (i, a) /\ x <> (S i, b)) ->
  goodI Inv x (aeval_arg nm ty).
Proof.
  intros H. split; [apply filt_arg|]. intros l U I Hx. unfold aeval_arg.
  destruct (afind (matches_arg nm false) l) as [[i a]|] eqn:F; [|cbn; auto].
  pose proof F as F'. apply afind_in in F. destruct F as [Hin Ma].
  destruct (aget (S i) l) as [b|] eqn:G; [|cbn; auto].
  pose proof (aget_in _ _ _ G) as Hb.
  destruct b as [c adj os|n' adj os|w|w|w]; cbn [snd]; auto; rewrite aconvert_snd';
    (destruct (H l i a _ w U I Hx Hin Ma F' Hb eq_refl) as [N1 N2]; eapply arg_removal_keeps; eauto).
Qed.

Lemma arg_goodI_key (Inv : lv -> Prop) x nm ty :
  is_key (snd x) = true -> matches_arg nm false (snd x) = false -> goodI Inv x (aeval_arg nm ty).
Proof.
  intros Kx Mx. apply arg_goodI_gen. intros l i a b w U _ Hx Hi Ma _ Hb Vb. split; intros ->; cbn in *.
  - congruence.
  - rewrite (value_not_key b w Vb) in Kx. discriminate.
Qed.

Lemma arg_goodI_posword (Inv : lv -> Prop) x nm ty w0 : snd x = PosWord w0 -> goodI Inv x (aeval_arg nm ty).
Proof.
  intros Ex. apply arg_goodI_gen. intros l i a b w U _ Hx Hi Ma _ Hb Vb. split; intros ->; cbn in *; subst.
  - cbn in Ma. discriminate.
  - cbn in Vb. discriminate.
Qed.

Section Kinds.
Variable items : list citem.

Definition argsafe (b : arg) : Prop :=
  forall it, In it items -> is_argument it = true -> matches_arg (item_named it) false b = false.
(* no value stands right of x *)
Definition InvA (x : nat * arg) (l : lv) : Prop := forall b w, aget (S (fst x)) l = Some b -> is_value b = Some w -> False.
(* no argument's name stands left of x *)
Definition InvB (x : nat * arg) (l : lv) : Prop := forall j b, fst x = S j -> aget j l = Some b -> argsafe b.

Lemma InvA_filt x f l : uniq l -> InvA x l -> InvA x (filter f l).
Proof. intros U I b w G V. apply (I b w); [eapply aget_filter; eauto|exact V]. Qed.
Lemma InvB_filt x f l : uniq l -> InvB x l -> InvB x (filter f l).
Proof. intros U I j b E G. apply (I j b E). eapply aget_filter; eauto. Qed.

Lemma arg_goodI_A x nm ty : is_key (snd x) = true -> goodI (InvA x) x (aeval_arg nm ty).
Proof.
  intros Kx. apply arg_goodI_gen. intros l i a b w U I Hx Hi Ma F Hb Vb. split; intros ->; cbn in *.
  - apply (I b w); [apply in_aget; assumption|exact Vb].
  - rewrite (value_not_key b w Vb) in Kx. discriminate.
Qed.

Lemma arg_goodI_B x it ty :
  In it items -> is_argument it = true -> is_key (snd x) = false ->
  goodI (InvB x) x (aeval_arg (item_named it) ty).
Proof.
  intros Hit Ia Kx. apply arg_goodI_gen. intros l i a b w U I Hx Hi Ma F Hb Vb. split; intros ->; cbn in *.
  - rewrite (match_is_key _ _ Ma) in Kx. discriminate.
  - pose proof (I i a eq_refl (in_aget l i a U Hi) it Hit Ia) as N. congruence.
Qed.

Lemma pos_goodI_key (Inv : lv -> Prop) x ty : is_key (snd x) = true -> goodI Inv x (aeval_pos ty).
Proof. intros Kx. split; [apply filt_pos|]. apply safe_safeI. apply pos_safe. exact Kx. Qed.

Lemma pos_goodI_argword (Inv : lv -> Prop) x ty w0 : snd x = ArgWord w0 -> goodI Inv x (aeval_pos ty).
Proof.
  intros Ex. split; [apply filt_pos|]. intros l U _ Hx. unfold aeval_pos.
  destruct (afind is_word l) as [[i a]|] eqn:F; [|cbn; auto].
  apply afind_in in F. destruct F as [Hin Wa].
  assert (Hk : In x (aremove i l)).
  { apply remove_keeps; auto. intros y Hy Ey E. subst y.
    assert (x = (i, a)) by (apply (uniq_same l); auto). subst x. cbn in Ex. subst a. discriminate. }
  destruct a; cbn [snd]; auto; rewrite aconvert_snd'; exact Hk.
Qed.

(* the four ways a token is stuck on a flat level *)
Inductive stuck (tail : ctail) (x : nat * arg) (l : lv) : Prop :=
| St_unowned : is_key (snd x) = true ->
    (forall it, In it items -> matches_arg (item_named it) false (snd x) = false) -> stuck tail x l
| St_novalue it : In it items -> is_argument it = true -> matches_arg (item_named it) false (snd x) = true ->
    InvA x l -> stuck tail x l
| St_stray : is_key (snd x) = false -> InvB x l ->
    (tail = TNone \/ exists w, snd x = ArgWord w) -> stuck tail x l
| St_posword w : snd x = PosWord w -> tail = TNone -> stuck tail x l.

Hypothesis Hdis : disjoint_names items.

Lemma same_owner a it it' : In it items -> In it' items ->
  matches_arg (item_named it) false a = true -> matches_arg (item_named it') false a = true -> it = it'.
Proof.
  intros H1 H2 M1 M2. apply In_nth_error in H1. apply In_nth_error in H2. destruct H1 as [j Hj]. destruct H2 as [k Hk].
  assert (j = k) by (eapply Hdis; eauto). subst k. rewrite Hj in Hk. inversion Hk. reflexivity.
Qed.

Lemma stuck_survives fuel tail x l acc err :
  (forall cs, tail <> TCmds cs) -> uniq l -> In x l -> stuck tail x l ->
  In x (snd (acon_go (map (aeval fuel) (map compile_item items ++ tail_fields tail)) l acc err)).
Proof.
  intros Ht U Hx St.
  assert (Hnk : forall a, is_key a = false -> forall nm, matches_arg nm false a = false).
  { intros a Ka nm. destruct (matches_arg nm false a) eqn:M; [|reflexivity]. rewrite (match_is_key _ _ M) in Ka. discriminate. }
  destruct St as [Kx Hno|it0 Hit0 Ia0 M0 IA|Kx IB Htl|w Ex Htl].
  - (* no item owns the key *)
    apply (acon_go_safeI (fun _ => True) (fun _ _ _ _ => I) x); auto.
    rewrite map_app. apply Forall_app. split; rewrite Forall_forall; intros ev Hev;
      apply in_map_iff in Hev; destruct Hev as (q & <- & Hq).
    + apply in_map_iff in Hq. destruct Hq as (it & <- & Hit). apply (item_goodI (fun _ => True) (fun _ _ _ _ => I)); intros _.
      * intros pr ab. apply flag_goodI. apply Hno. exact Hit.
      * intros ty. apply arg_goodI_key; [exact Kx|apply Hno; exact Hit].
    + destruct tail as [|ps|cs]; cbn [tail_fields] in Hq; try contradiction.
      apply in_map_iff in Hq. destruct Hq as (p & <- & _). apply (posf_goodI (fun _ => True) (fun _ _ _ _ => I)). intros ty. apply pos_goodI_key. exact Kx.
  - (* an argument's name without a value *)
    assert (Kx : is_key (snd x) = true) by (eapply match_is_key; exact M0).
    apply (acon_go_safeI (InvA x) (InvA_filt x) x); auto.
    rewrite map_app. apply Forall_app. split; rewrite Forall_forall; intros ev Hev;
      apply in_map_iff in Hev; destruct Hev as (q & <- & Hq).
    + apply in_map_iff in Hq. destruct Hq as (it & <- & Hit). apply (item_goodI (InvA x) (InvA_filt x)); intros Ia.
      * intros pr ab. apply flag_goodI.
        destruct (matches_arg (item_named it) false (snd x)) eqn:M; [|reflexivity].
        rewrite (same_owner (snd x) it it0 Hit Hit0 M M0) in Ia. congruence.
      * intros ty. apply arg_goodI_A. exact Kx.
    + destruct tail as [|ps|cs]; cbn [tail_fields] in Hq; try contradiction.
      apply in_map_iff in Hq. destruct Hq as (p & <- & _). apply (posf_goodI (InvA x) (InvA_filt x)). intros ty. apply pos_goodI_key. exact Kx.
  - (* a word or an attached value that no argument's name precedes *)
    apply (acon_go_safeI (InvB x) (InvB_filt x) x); auto.
    rewrite map_app. apply Forall_app. split; rewrite Forall_forall; intros ev Hev;
      apply in_map_iff in Hev; destruct Hev as (q & <- & Hq).
    + apply in_map_iff in Hq. destruct Hq as (it & <- & Hit). apply (item_goodI (InvB x) (InvB_filt x)); intros Ia.
      * intros pr ab. apply flag_goodI. apply Hnk. exact Kx.
      * intros ty. apply arg_goodI_B; assumption.
    + destruct tail as [|ps|cs]; cbn [tail_fields] in Hq; try contradiction.
      apply in_map_iff in Hq. destruct Hq as (p & <- & _). apply (posf_goodI (InvB x) (InvB_filt x)). intros ty.
      destruct Htl as [Htl|[w Ew]]; [discriminate|]. eapply pos_goodI_argword. exact Ew.
  - (* a word right of `--` where the level has no positional *)
    subst tail. cbn [tail_fields]. rewrite app_nil_r.
    apply (acon_go_safeI (fun _ => True) (fun _ _ _ _ => I) x); auto.
    rewrite Forall_forall. intros ev Hev. apply in_map_iff in Hev. destruct Hev as (q & <- & Hq).
    apply in_map_iff in Hq. destruct Hq as (it & <- & Hit). apply (item_goodI (fun _ => True) (fun _ _ _ _ => I)); intros Ia.
    + intros pr ab. apply flag_goodI. apply Hnk. rewrite Ex. reflexivity.
    + intros ty. eapply arg_goodI_posword. exact Ex.
Qed.
End Kinds.

(* ------------------------------------------------------------------ S8. what the scan rejects is a stuck token *)
Lemma att_cons_reject r o w res : att_cons r o w res = ScReject -> res = ScReject.
Proof. destruct res; cbn; congruence. Qed.

Lemma live_from_ge ts : forall ix p, In p (live_from ix ts) -> ix <= fst p.
Proof.
  induction ts as [|[a m] r IH]; intros ix p Hp; cbn [live_from] in Hp; [contradiction|].
  apply in_app_or in Hp. destruct Hp as [Hp|Hp].
  - destruct m; [contradiction|]. destruct Hp as [<-|[]]. cbn. lia.
  - apply IH in Hp. lia.
Qed.

Lemma find_owner_none its a : forall k0, find_owner its a k0 = None ->
  forall it, In it its -> matches_arg (item_named it) false a = false.
Proof.
  induction its as [|x t IH]; intros k0 H it Hin; [contradiction|]. cbn [find_owner] in H.
  destruct (matches_arg (item_named x) false a) eqn:M; [discriminate|].
  destruct Hin as [<-|Hin]; [exact M|]. eapply IH; eauto.
Qed.

Section ScanRej.
Variable items : list citem.
Variable anc : list citem.
Variable tail : ctail.
Hypothesis Hdis : disjoint_names items.

(* the fields a stuck token has to survive besides the named ones: the positionals of a flat level *)
Definition ptail : ctail := match tail with TPos ps => TPos ps | _ => TNone end.

Definition prev_ok (ix : nat) (pre : lv) : Prop := forall j b, ix = S j -> In (j, b) pre -> argsafe items b.

Lemma not_key_argsafe b : is_key b = false -> argsafe items b.
Proof.
  intros K it _ _. destruct (matches_arg (item_named it) false b) eqn:M; [|reflexivity].
  rewrite (match_is_key _ _ M) in K. discriminate.
Qed.

Lemma flag_key_argsafe a k it : find_owner items a 0 = Some (k, it) -> is_argument it = false -> argsafe items a.
Proof.
  intros Fo Ia it' Hit' Ia'. destruct (matches_arg (item_named it') false a) eqn:M; [|reflexivity].
  destruct (find_owner_spec items a 0 k it Fo) as (_ & Hn & Mk). rewrite Nat.sub_0_r in Hn.
  rewrite (same_owner items Hdis a it' it Hit' (nth_error_In _ _ Hn) M Mk) in Ia'. congruence.
Qed.

(* the step of the induction: one more attributed token in front *)
Lemma prev_step ix pre a : (forall p, In p pre -> fst p < ix) -> argsafe items a ->
  (forall p, In p (pre ++ [(ix, a)]) -> fst p < S ix) /\ prev_ok (S ix) (pre ++ [(ix, a)]).
Proof.
  intros Hp Sa. split.
  - intros p Hin. apply in_app_or in Hin. destruct Hin as [Hin|[<-|[]]]; [apply Hp in Hin; lia|cbn; lia].
  - intros j b E Hin. inversion E; subst j. apply in_app_or in Hin. destruct Hin as [Hin|[Hin|[]]].
    + apply Hp in Hin. cbn in Hin. lia.
    + inversion Hin; subst. exact Sa.
Qed.

Lemma invB_head ix pre a suf :
  (forall p, In p pre -> fst p < ix) -> prev_ok ix pre -> (forall p, In p suf -> ix < fst p) ->
  InvB items (ix, a) (pre ++ (ix, a) :: suf).
Proof.
  intros Hp Pk Hs j b E G. cbn in E. apply aget_in in G. apply in_app_or in G. destruct G as [G|[G|G]].
  - eapply Pk; eauto.
  - inversion G. lia.
  - apply Hs in G. cbn in G. lia.
Qed.

Lemma suf_above ix rest p : In p (live_from (S ix) rest) -> ix < fst p.
Proof. intros H. apply live_from_ge in H. lia. Qed.

Lemma scan_reject_stuck n : forall ts, length ts <= n -> forall ix pre,
  scan items anc tail ts = ScReject ->
  (forall p, In p pre -> fst p < ix) -> prev_ok ix pre ->
  exists x, In x (pre ++ live_from ix ts) /\ stuck items ptail x (pre ++ live_from ix ts).
Proof.
  unfold ptail. induction n as [|n IH]; intros ts Hn ix pre H Hp Pk.
  - destruct ts; [cbn in H; discriminate|cbn in Hn; lia].
  - destruct ts as [|[x m] rest]; [cbn in H; discriminate|].
    cbn [scan] in H. cbn [length] in Hn.
    destruct m.
    + (* the `--` item *)
      apply att_cons_reject in H. cbn [live_from app].
      apply (IH rest ltac:(lia) (S ix) pre H).
      * intros p Hin. apply Hp in Hin. lia.
      * intros j b E Hin. inversion E; subst j. apply Hp in Hin. cbn in Hin. lia.
    + cbn [live_from app].
      assert (Hx : In (ix, x) (pre ++ (ix, x) :: live_from (S ix) rest)) by (apply in_or_app; right; left; reflexivity).
      (* a key *)
      assert (Hkey : is_key x = true ->
        (if is_help x then ScUnspec else
          match find_owner items x 0 with
          | Some (k, it) =>
            if is_argument it then
              match rest with
              | (ArgWord w, false) :: rest' | (Word w, false) :: rest' =>
                att_cons [RKey k; RVal k] [(k, Some w)] [] (scan items anc tail rest')
              | _ => if unspec_later items anc tail false ((x, false) :: rest) then ScUnspec else ScReject
              end
            else att_cons [RKey k] [(k, None)] [] (scan items anc tail rest)
          | None =>
            match find_owner anc x 0 with
            | Some _ => ScUnspec
            | None => if unspec_later items anc tail false ((x, false) :: rest) then ScUnspec else ScReject
            end
          end) = ScReject ->
        exists y, In y (pre ++ (ix, x) :: live_from (S ix) rest) /\ stuck items (match tail with TPos ps => TPos ps | _ => TNone end) y (pre ++ (ix, x) :: live_from (S ix) rest)).
      { intros Kx H'. destruct (is_help x); [discriminate|].
        destruct (find_owner items x 0) as [[k it]|] eqn:Fo.
        - destruct (find_owner_spec items x 0 k it Fo) as (_ & Hnth & Mk). rewrite Nat.sub_0_r in Hnth.
          pose proof (nth_error_In _ _ Hnth) as Hit.
          destruct (is_argument it) eqn:Ia.
          + (* an argument *)
            assert (Hrej : (forall b w, In (S ix, b) (live_from (S ix) rest) -> is_value b = Some w -> False) ->
                    exists y, In y (pre ++ (ix, x) :: live_from (S ix) rest) /\ stuck items (match tail with TPos ps => TPos ps | _ => TNone end) y (pre ++ (ix, x) :: live_from (S ix) rest)).
            { intros Hnv. exists (ix, x). split; [exact Hx|]. apply (St_novalue items _ (ix, x) _ it Hit Ia Mk).
              intros b w G V. cbn [fst] in G. apply aget_in in G. apply in_app_or in G. destruct G as [G|[G|G]].
              - apply Hp in G. cbn in G. lia.
              - inversion G. lia.
              - eapply Hnv; eauto. }
            assert (Hacc : forall b w rest', rest = (b, false) :: rest' -> is_value b = Some w ->
                    scan items anc tail rest' = ScReject ->
                    exists y, In y (pre ++ (ix, x) :: live_from (S ix) rest) /\ stuck items (match tail with TPos ps => TPos ps | _ => TNone end) y (pre ++ (ix, x) :: live_from (S ix) rest)).
            { intros b w rest' -> Vb Hr. cbn [live_from app].
              destruct (IH rest' ltac:(cbn in Hn; lia) (S (S ix)) (pre ++ [(ix, x); (S ix, b)]) Hr) as (y & Hy & Sy).
              - intros p Hin. apply in_app_or in Hin. destruct Hin as [Hin|[<-|[<-|[]]]]; [apply Hp in Hin; lia|cbn; lia|cbn; lia].
              - intros j b' E Hin. inversion E; subst j. apply in_app_or in Hin. destruct Hin as [Hin|[Hin|[Hin|[]]]].
                + apply Hp in Hin. cbn in Hin. lia.
                + inversion Hin. lia.
                + inversion Hin; subst. apply not_key_argsafe. eapply value_not_key; eauto.
              - rewrite <- app_assoc in Hy, Sy. cbn [app] in Hy, Sy. eauto. }
            destruct rest as [|[b mb] rest']; [apply Hrej; intros b w []|].
            destruct b as [c2 a2 o2|n2 a2 o2|w|w|w]; destruct mb;
              try (apply att_cons_reject in H'; eapply Hacc; [reflexivity|reflexivity|exact H']);
              apply Hrej; intros b w0 Hin Vb; cbn [live_from app] in Hin;
              try (apply suf_above in Hin; cbn in Hin; lia);
              (destruct Hin as [Hin|Hin]; [inversion Hin; subst; discriminate|apply suf_above in Hin; cbn in Hin; lia]).
          + (* a flag *)
            apply att_cons_reject in H'.
            destruct (prev_step ix pre x Hp (flag_key_argsafe x k it Fo Ia)) as [Hp' Pk'].
            destruct (IH rest ltac:(lia) (S ix) (pre ++ [(ix, x)]) H' Hp' Pk') as (y & Hy & Sy).
            rewrite <- app_assoc in Hy, Sy. cbn [app] in Hy, Sy. eauto.
        - destruct (find_owner anc x 0); [discriminate|].
          exists (ix, x). split; [exact Hx|]. apply St_unowned; [exact Kx|]. intros it Hit. eapply find_owner_none; eauto. }
      destruct x as [c adj os|nm adj os|w|w|w].
      * apply Hkey; [reflexivity|exact H].
      * apply Hkey; [reflexivity|exact H].
      * (* ArgWord *)
        exists (ix, ArgWord w). split; [exact Hx|]. apply St_stray; [reflexivity| |right; exists w; reflexivity].
        apply invB_head; auto. intros p. apply suf_above.
      * (* Word *)
        destruct (dashy w); [discriminate|].
        destruct tail as [|ps|cs] eqn:Et.
        -- exists (ix, Word w). split; [exact Hx|]. apply St_stray; [reflexivity| |left; reflexivity].
           apply invB_head; auto. intros p. apply suf_above.
        -- apply att_cons_reject in H.
           destruct (prev_step ix pre (Word w) Hp (not_key_argsafe (Word w) eq_refl)) as [Hp' Pk'].
           destruct (IH rest ltac:(lia) (S ix) (pre ++ [(ix, Word w)]) H Hp' Pk') as (y & Hy & Sy).
           rewrite <- app_assoc in Hy, Sy. cbn [app] in Hy, Sy. eauto.
        -- destruct (find_cmd cs w); [discriminate|].
           exists (ix, Word w). split; [exact Hx|]. apply St_stray; [reflexivity| |left; reflexivity].
           apply invB_head; auto. intros p. apply suf_above.
      * (* PosWord *)
        destruct tail as [|ps|cs] eqn:Et.
        -- exists (ix, PosWord w). split; [exact Hx|]. eapply St_posword; reflexivity.
        -- apply att_cons_reject in H.
           destruct (prev_step ix pre (PosWord w) Hp (not_key_argsafe (PosWord w) eq_refl)) as [Hp' Pk'].
           destruct (IH rest ltac:(lia) (S ix) (pre ++ [(ix, PosWord w)]) H Hp' Pk') as (y & Hy & Sy).
           rewrite <- app_assoc in Hy, Sy. cbn [app] in Hy, Sy. eauto.
        -- exists (ix, PosWord w). split; [exact Hx|]. eapply St_posword; reflexivity.
Qed.
End ScanRej.

(* ------------------------------------------------------------------ S9. rejected vectors are never parsed; the flat level, complete *)
Lemma live_from_uniq ts : forall ix, uniq (live_from ix ts).
Proof.
  unfold uniq. induction ts as [|[a m] r IH]; intros ix; cbn [live_from]; [constructor|].
  destruct m; cbn [app map fst]; [apply IH|]. constructor; [|apply IH].
  intros Hin. apply in_map_iff in Hin. destruct Hin as (y & E & Hy). apply live_from_ge in Hy. lia.
Qed.

Lemma ok_abstract env n items tail ts ix s s' v :
  flat_ok items tail -> Sim n s (live_from ix ts) ->
  eval env (compile (Level items tail)) s = (ROk v, s') -> first_item_ix s' = None ->
  aeval (S (S n)) (compile (Level items tail)) (live_from ix ts) = (AOk v, []).
Proof.
  intros Hok S0 Ee Hfi. destruct (compile_flat items tail Hok) as [Ec Hflat].
  destruct (eval_sim env n (compile (Level items tail)) Hflat s _ S0) as [R S1].
  rewrite Ee in R, S1. cbn [fst snd] in R, S1.
  destruct (aeval (S (S n)) (compile (Level items tail)) (live_from ix ts)) as [ar l'] eqn:Ha. cbn [fst snd] in R, S1.
  destruct ar as [v'|m c|]; cbn in R; try contradiction. subst v'.
  unfold first_item_ix in Hfi. rewrite (find_item_view _ s' l' (fun _ => true) S1) in Hfi.
  destruct l' as [|[i x] l']; [reflexivity|]. cbn in Hfi. discriminate.
Qed.

Definition rejected (items : list citem) (tail : ctail) (argv : list bytes) : Prop :=
  let st := short_tables (compile_options (Level items tail)) in
  let t := tokenize (fst st) (snd st) argv in
  t_ambiguity t = None /\ scan items [] tail (mark_tokens t) = ScReject.

Theorem reject_not_ok_flat feat env items tail argv :
  flat_ok items tail -> rejected items tail argv ->
  forall v, run_inner feat env (compile_options (Level items tail)) None argv <> OutOk v.
Proof.
  intros Hok [Ea Sc] v Hr. pose proof Hok as (Hdis & Hnames & Hl2).
  unfold run_inner, run_inner_state, initial_state in Hr.
  destruct (short_tables (compile_options (Level items tail))) as [sf sa]. cbn [fst snd] in Ea, Sc.
  pose proof (construct_sim sf sa None argv) as S0. cbn zeta in S0.
  pose proof (construct_amb sf sa None argv) as Hamb.
  set (t := tokenize sf sa argv) in *.
  destruct (construct sf sa None argv) as [s0 amb0]. cbn [fst snd] in S0, Hamb. subst amb0.
  rewrite Ea in Hr.
  unfold compile_options in Hr. rewrite run_sub_eq in Hr.
  destruct (eval env (compile (Level items tail)) s0) as [r s1] eqn:Ee.
  apply run_sub_body_ok in Hr. destruct Hr as [-> Hfi].
  pose proof (ok_abstract env _ items tail (mark_tokens t) 0 s0 s1 v Hok S0 Ee Hfi) as Ha.
  destruct (compile_flat items tail Hok) as [Ec _]. rewrite Ec in Ha. cbn [aeval] in Ha. rewrite aevals_plist in Ha.
  assert (Hnc : forall cs, tail <> TCmds cs) by (intros cs ->; contradiction).
  destruct (scan_reject_stuck items [] tail Hdis _ (mark_tokens t) (le_n _) 0 [] Sc) as (x & Hx & St).
  - intros p [].
  - intros j b E. discriminate.
  - cbn [app] in Hx, St.
    assert (Ept : ptail tail = tail) by (unfold ptail; destruct tail; [reflexivity|reflexivity|exfalso; eapply Hnc; reflexivity]).
    rewrite Ept in St.
    pose proof (stuck_survives items Hdis (S (S (length (t_items t)))) tail x _ [] None Hnc (live_from_uniq _ 0) Hx St) as Hin.
    rewrite Ha in Hin. exact Hin.
Qed.

(* C01 for the flat level, both directions: on every vector the grammar specifies, Ok v is returned
   exactly for the sentences with value v *)
Theorem denote_complete_flat feat env items tail argv v :
  flat_ok items tail -> denote (Level items tail) argv <> Unspecified ->
  (denote (Level items tail) argv = Accept v <->
   run_inner feat env (compile_options (Level items tail)) None argv = OutOk v).
Proof.
  intros Hok Hsp. split; [apply denote_accept_flat; exact Hok|]. intros Hr.
  assert (Hnc : forall cs, tail <> TCmds cs) by (intros cs ->; destruct Hok as (_ & _ & F); contradiction).
  pose proof Hsp as Hsp'. unfold denote in Hsp'.
  destruct (short_tables (compile_options (Level items tail))) as [sf sa] eqn:Est.
  destruct (t_ambiguity (tokenize sf sa argv)) eqn:Ea; [contradiction Hsp'; reflexivity|].
  cbn [denote_level] in Hsp'.
  destruct (scan items [] tail (mark_tokens (tokenize sf sa argv))) as [a|a sub rest| |] eqn:Sc.
  - apply (denote_sound_flat feat env items tail argv v Hok); [|exact Hr].
    unfold attributed. rewrite Est. cbn [fst snd]. split; [exact Ea|eauto].
  - exfalso. eapply (scan_not_cmd items [] tail _ Hnc _ (le_n _)). exact Sc.
  - exfalso. eapply (reject_not_ok_flat feat env items tail argv Hok); [|exact Hr].
    unfold rejected. rewrite Est. cbn [fst snd]. split; assumption.
  - contradiction Hsp'. reflexivity.
Qed.

(* the negative half on its own *)
Corollary denote_reject_flat feat env items tail argv :
  flat_ok items tail -> denote (Level items tail) argv = Reject ->
  forall v, run_inner feat env (compile_options (Level items tail)) None argv <> OutOk v.
Proof.
  intros Hok Hd v Hr.
  assert (Hsp : denote (Level items tail) argv <> Unspecified) by (rewrite Hd; discriminate).
  apply (denote_complete_flat feat env items tail argv v Hok Hsp) in Hr. rewrite Hd in Hr. discriminate.
Qed.
Print Assumptions denote_complete_flat.
Print Assumptions denote_reject_flat.
