(* CompleteLaws.v -- Complete::complete: which collected hints become candidates (C14). *)
From Coq Require Import Lia List Bool NArith Arith.
From BpafModel Require Import Complete.
From BpafLemmas Require Import ShellLaws.
Import ListNotations.

Section Go.
Variable arg : str.
Variable po nm : bool.
Variable px : cprefix.

Notation go := (complete_go arg po nm px).
Notation item := (comp_item arg po px).

(* every candidate comes from a hint that was processed *)
Lemma go_sound i : forall cs ov items shell,
  In i (fst (go cs ov items shell)) ->
  In i items \/ exists c, In c cs /\ item c = Some i /\ (ov = true -> only_value c = true).
Proof.
  induction cs as [|c t IH]; intros ov items shell H; cbn [complete_go] in H.
  - left. cbn in H. apply in_rev in H. exact H.
  - destruct (ov && negb (only_value c)) eqn:Sk.
    + destruct (IH _ _ _ H) as [Hi|(c' & Hc & Hit & Hov)]; [left; exact Hi|right].
      exists c'. split; [right; exact Hc|split; assumption].
    + apply IH in H. destruct H as [Hi|(c' & Hc & Hit & Hov)].
      * assert (Hin0 : In i (if negb ov && only_value c then [] else items) -> In i items)
          by (destruct (negb ov && only_value c); [intros []|auto]).
        destruct (item c) as [i0|] eqn:Ei.
        -- destruct Hi as [<-|Hi]; [|left; auto]. right. exists c. split; [left; reflexivity|split; [exact Ei|]].
           intros ->. cbn in Sk. destruct (only_value c); [reflexivity|discriminate].
        -- left. auto.
      * right. exists c'. split; [right; exact Hc|split; [exact Hit|]]. intros ->. apply Hov. reflexivity.
Qed.

(* once a value is being typed (or will be: a value-only hint is among those processed), names are out *)
Lemma go_values i : forall cs ov items shell,
  ov = true \/ existsb only_value cs = true ->
  In i (fst (go cs ov items shell)) ->
  (ov = true /\ In i items) \/ exists c, In c cs /\ only_value c = true /\ item c = Some i.
Proof.
  induction cs as [|c t IH]; intros ov items shell Hv H; cbn [complete_go] in H.
  - cbn in H. apply in_rev in H. destruct Hv as [->|Hv]; [left; auto|discriminate].
  - destruct (ov && negb (only_value c)) eqn:Sk.
    + apply andb_prop in Sk. destruct Sk as [-> Sk].
      destruct (IH _ _ _ (or_introl eq_refl) H) as [Hi|(c' & Hc & Ho & Hit)]; [left; exact Hi|right].
      exists c'. split; [right; exact Hc|auto].
    + destruct (ov || only_value c) eqn:Ov'.
      * destruct (IH _ _ _ (or_introl eq_refl) H) as [[_ Hi]|(c' & Hc & Ho & Hit)].
        -- assert (Oc : ov = true \/ only_value c = true) by (apply orb_prop; exact Ov').
           assert (Hoc : only_value c = true).
           { destruct (only_value c); [reflexivity|]. destruct Oc as [->|F]; [cbn in Sk|]; discriminate. }
           destruct (item c) as [i0|] eqn:Ei.
           ++ destruct Hi as [<-|Hi]; [right; exists c; split; [left; reflexivity|auto]|].
              destruct ov; cbn in Hi; [left; auto|]. rewrite Hoc in Hi. destruct Hi.
           ++ destruct ov; cbn in Hi; [left; auto|]. rewrite Hoc in Hi. destruct Hi.
        -- right. exists c'. split; [right; exact Hc|auto].
      * apply orb_false_elim in Ov'. destruct Ov' as [-> Oc].
        destruct Hv as [F|Hv]; [discriminate|]. cbn [existsb] in Hv. rewrite Oc in Hv. cbn in Hv.
        destruct (IH _ _ _ (or_intror Hv) H) as [[F _]|(c' & Hc & Ho & Hit)]; [discriminate|right].
        exists c'. split; [right; exact Hc|auto].
Qed.

(* no value-only hint: nothing is dropped *)
Lemma go_keeps i : forall cs items shell,
  existsb only_value cs = false -> In i items -> In i (fst (go cs false items shell)).
Proof.
  induction cs as [|c t IH]; intros items shell Hn Hi; cbn [complete_go].
  - cbn. apply in_rev. rewrite rev_involutive. exact Hi.
  - cbn [existsb] in Hn. apply orb_false_elim in Hn. destruct Hn as [Oc Hn]. rewrite Oc. cbn [andb orb negb].
    apply IH; [exact Hn|]. destruct (item c); [right|]; exact Hi.
Qed.

Lemma go_complete i c : forall cs items shell,
  existsb only_value cs = false -> In c cs -> item c = Some i -> In i (fst (go cs false items shell)).
Proof.
  induction cs as [|c0 t IH]; intros items shell Hn Hc Hit; [contradiction|]. cbn [complete_go].
  cbn [existsb] in Hn. apply orb_false_elim in Hn. destruct Hn as [Oc Hn]. rewrite Oc. cbn [andb orb negb].
  destruct Hc as [->|Hc].
  - rewrite Hit. apply go_keeps; [exact Hn|left; reflexivity].
  - apply IH; assumption.
Qed.
End Go.

(* ------------------------------------------------------------------ the deepest level *)
Lemma fold_max_ge l : forall a, a <= fold_left Nat.max l a.
Proof. induction l as [|x l IH]; intros a; cbn; [lia|]. specialize (IH (Nat.max a x)). lia. Qed.

Lemma fold_max_in l : forall a x, In x l -> x <= fold_left Nat.max l a.
Proof.
  induction l as [|y l IH]; intros a x H; [contradiction|]. cbn. destruct H as [->|H]; [|apply IH; exact H].
  pose proof (fold_max_ge l (Nat.max a x)). lia.
Qed.

Lemma max_depth_ge cs c : In c cs -> comp_depth c <= max_depth cs.
Proof. intros H. unfold max_depth. apply fold_max_in. apply in_map. exact H. Qed.

(* ------------------------------------------------------------------ C14 on the second stage *)
(* every candidate stems from a collected hint of the deepest command level entered (and, after
   `--`, a positional one) *)
Theorem complete_sound cs arg po nm px i :
  In i (fst (complete cs arg po nm px)) ->
  exists c, In c cs /\ comp_depth c = max_depth cs /\ (po = true -> is_pos c = true) /\
            comp_item arg po px c = Some i.
Proof.
  unfold complete. intros H. apply go_sound in H. destruct H as [[]|(c & Hc & Hit & _)].
  apply filter_In in Hc. destruct Hc as [Hc Hp]. unfold passes in Hp. apply andb_prop in Hp. destruct Hp as [Hp _].
  apply andb_prop in Hp. destruct Hp as [Hd Hpo].
  exists c. split; [exact Hc|]. split; [apply Nat.eqb_eq; exact Hd|]. split; [|exact Hit].
  intros ->. cbn in Hpo. exact Hpo.
Qed.

(* what a candidate looks like, by the kind of its hint: a flag / argument / command name is offered
   only through the name filters (ShellLaws: arg_matches_sound, cmd_matches_sound); a completer's
   value carries the typed `-s=` / `--long=` prefix; a metavariable placeholder replaces nothing *)
Theorem comp_item_shape arg po px c i :
  comp_item arg po px c = Some i ->
  match c with
  | CoFlag _ s l => arg_matches arg s l = Some (sc_subst i) /\ sc_pretty i = sc_subst i
  | CoArgument _ s l mv => arg_matches arg s l = Some (sc_subst i) /\ sc_pretty i = sc_subst i ++ eq_sign :: mv
  | CoCommand _ name s => cmd_matches arg name s = true /\ sc_subst i = name /\ sc_pretty i = name
  | CoValue _ body _ =>
    sc_pretty i = body /\
    sc_subst i = match px with PxNA => body | PxShort s => dash :: s :: eq_sign :: body
                          | PxLong l => dash :: dash :: l ++ eq_sign :: body end
  | CoMeta _ meta _ => sc_subst i = [] /\ sc_pretty i = meta
  | CoShell _ _ _ => False
  end /\ sc_group i = ce_group (comp_extra c) /\ sc_help i = ce_help (comp_extra c).
Proof.
  destruct c as [e s l|e s l mv|e name s|e body a|e meta a|e sc a]; cbn [comp_item].
  - destruct (arg_matches arg s l) as [n|]; [|discriminate]. intros H; inversion H; subst. cbn. auto.
  - destruct (arg_matches arg s l) as [n|]; [|discriminate]. intros H; inversion H; subst. cbn. auto.
  - destruct (cmd_matches arg name s); [|discriminate]. intros H; inversion H; subst. cbn. auto.
  - intros H; inversion H; subst. cbn. auto.
  - destruct (negb a && negb po && _); [discriminate|]. intros H; inversion H; subst. cbn. auto.
  - discriminate.
Qed.

(* while the value of an argument is being typed, no flag, argument or command name is offered *)
Theorem complete_value_mode cs arg po nm px i :
  (exists c, In c cs /\ passes (max_depth cs) po px c = true /\ only_value c = true) ->
  In i (fst (complete cs arg po nm px)) ->
  exists c, In c cs /\ only_value c = true /\ comp_item arg po px c = Some i.
Proof.
  intros (c0 & Hc0 & Hp0 & Ho0) H. unfold complete in H.
  apply go_values in H.
  - destruct H as [[F _]|(c & Hc & Ho & Hit)]; [discriminate|]. apply filter_In in Hc. exists c. tauto.
  - right. apply existsb_exists. exists c0. split; [apply filter_In; auto|exact Ho0].
Qed.

(* otherwise every hint of the deepest level whose name extends what was typed is offered *)
Theorem complete_names_complete cs arg po nm px c i :
  (forall c', In c' cs -> passes (max_depth cs) po px c' = true -> only_value c' = false) ->
  In c cs -> passes (max_depth cs) po px c = true -> comp_item arg po px c = Some i ->
  In i (fst (complete cs arg po nm px)).
Proof.
  intros Hn Hc Hp Hit. unfold complete. eapply go_complete; [|apply filter_In; split; eauto|exact Hit].
  destruct (existsb only_value (filter (passes (max_depth cs) po px) cs)) eqn:E; [|reflexivity].
  apply existsb_exists in E. destruct E as (c' & Hc' & Ho). apply filter_In in Hc'. destruct Hc' as [H1 H2].
  rewrite (Hn c' H1 H2) in Ho. discriminate.
Qed.

(* while the value of `--name=val` / `-n=val` is being typed (a prefix is in force) every candidate
   completes an argument's value: no name, no positional hint, no `--` (fix: commit b840250) *)
Theorem complete_prefix_only_values cs arg po nm px i :
  px <> PxNA -> In i (fst (complete cs arg po nm px)) ->
  exists c, In c cs /\ only_value c = true /\ comp_item arg po px c = Some i.
Proof.
  intros Hpx H. unfold complete in H. apply go_sound in H. destruct H as [[]|(c & Hc & Hit & _)].
  apply filter_In in Hc. destruct Hc as [Hc Hp]. unfold passes in Hp. apply andb_prop in Hp. destruct Hp as [_ Hv].
  exists c. split; [exact Hc|]. split; [|exact Hit]. destruct px; [congruence|exact Hv|exact Hv].
Qed.
