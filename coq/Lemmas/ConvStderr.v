(* ConvStderr.v -- C01, last clause: what the grammar rejects is reported on stderr.
   A rejected vector holds no help flag (the grammar leaves every vector with one unspecified), the
   compiled parser has no `adjacent` and the default Info at every level, so by QuietLaws the run does
   not end on stdout; by ConvTreeSound it is not a value; by TotalLaws... it is not a panic outcome
   either for flat levels (ConvTotal) -- for trees the remaining alternatives are stated. *)
From Coq Require Import Lia List Bool Arith.
From BpafModel Require Import Conv Wf.
From BpafLemmas Require Import Tac EvalEq Find Reach AbsSim ConvRefine ConvTotal ConvChain ConvTree ConvSound ConvTreeSound QuietLaws TotalLaws TotalAll.
Import ListNotations.

(* ------------------------------------------------------------------ the compiled parser is quiet material *)
Lemma noadj_plist l : noadj_l (plist_of l) = forallb noadj l.
Proof. induction l as [|p t IH]; cbn; [reflexivity|]. rewrite IH. reflexivity. Qed.

Lemma dinfo_plist l : (forall p, In p l -> dinfo p) -> dinfo_l (plist_of l).
Proof. induction l as [|p t IH]; cbn; intros H; [exact I|]. split; [apply H; left; reflexivity|apply IH; intros q Hq; apply H; right; exact Hq]. Qed.

Lemma item_quiet it : noadj (compile_item it) = true /\ dinfo (compile_item it).
Proof. destruct it as [n|n p a|n p|n|n p|n mv ty ar]; cbn; try (split; [reflexivity|exact I]). destruct ar; cbn; split; try reflexivity; exact I. Qed.

Lemma pos_quiet_c p : noadj (compile_pos p) = true /\ dinfo (compile_pos p).
Proof. unfold compile_pos. destruct (cp_par p); cbn; split; try reflexivity; exact I. Qed.

Lemma fold_or_quiet more : forall c, noadj c = true /\ dinfo c -> (forall q, In q more -> noadj q = true /\ dinfo q) ->
  noadj (fold_left POr more c) = true /\ dinfo (fold_left POr more c).
Proof.
  induction more as [|q more IH]; intros c Hc Hm; cbn [fold_left]; [exact Hc|].
  apply IH; [|intros q' Hq'; apply Hm; right; exact Hq'].
  destruct Hc as [Hc1 Hc2]. destruct (Hm q (or_introl eq_refl)) as [Hq1 Hq2]. cbn. rewrite Hc1, Hq1. auto.
Qed.

Fixpoint compile_quiet (l : level) : noadj (compile l) = true /\ dinfo (compile l)
with compile_cmds_quiet (cs : clist) : forall q, In q (compile_cmds cs) -> noadj q = true /\ dinfo q.
Proof.
  - destruct l as [items tail]. cbn [compile noadj dinfo].
    assert (Hitems : forall q, In q (map compile_item items) -> noadj q = true /\ dinfo q).
    { intros q Hq. apply in_map_iff in Hq. destruct Hq as (it & <- & _). apply item_quiet. }
    assert (Hall : forall fs, (forall q, In q fs -> noadj q = true /\ dinfo q) ->
              noadj_l (plist_of (map compile_item items ++ fs)) = true /\ dinfo_l (plist_of (map compile_item items ++ fs))).
    { intros fs Hfs. split.
      - rewrite noadj_plist. apply forallb_forall. intros q Hq. apply in_app_or in Hq. destruct Hq as [Hq|Hq]; [apply Hitems|apply Hfs]; exact Hq.
      - apply dinfo_plist. intros q Hq. apply in_app_or in Hq. destruct Hq as [Hq|Hq]; [apply Hitems|apply Hfs]; exact Hq. }
    destruct tail as [|ps|cs].
    + apply Hall. intros q [].
    + apply Hall. intros q Hq. apply in_map_iff in Hq. destruct Hq as (p & <- & _). apply pos_quiet_c.
    + pose proof (compile_cmds_quiet cs) as Hc. destruct (compile_cmds cs) as [|c more]; [apply Hall; intros q []|].
      apply Hall. intros q [<-|[]]. apply fold_or_quiet; [apply Hc; left; reflexivity|intros q' Hq'; apply Hc; right; exact Hq'].
  - destruct cs as [|name aliases sub rest]; cbn [compile_cmds]; [intros q []|].
    intros q [<-|Hq]; [|apply (compile_cmds_quiet rest); exact Hq].
    cbn [noadj noadj_o dinfo dinfo_o negb andb]. destruct (compile_quiet sub) as [H1 H2].
    split; [exact H1|]. split; [exact H2|]. repeat split; reflexivity.
Qed.

(* ------------------------------------------------------------------ specified vectors hold no help flag *)
Definition hfree (ts : list (arg * bool)) : Prop := forall b, In (b, false) ts -> is_help b = false.

Lemma hfree_app a b : hfree a -> hfree b -> hfree (a ++ b).
Proof. intros Ha Hb x Hin. apply in_app_or in Hin. destruct Hin; [apply Ha|apply Hb]; assumption. Qed.

Lemma nonkey_nohelp a : is_key a = false -> is_help a = false.
Proof. intros K. unfold is_help. apply not_key_no_match. exact K. Qed.

Lemma unspec_later_hfree items anc tail : forall ts pc, unspec_later items anc tail pc ts = false -> hfree ts.
Proof.
  induction ts as [|[a m] r IH]; intros pc H b Hin; [contradiction|]. cbn [unspec_later] in H.
  destruct m.
  - destruct Hin as [E|Hin]; [discriminate|]. eapply IH; eauto.
  - apply orb_false_elim in H. destruct H as [H Hr]. apply orb_false_elim in H. destruct H as [H _].
    apply orb_false_elim in H. destruct H as [H _]. apply orb_false_elim in H. destruct H as [Hh _].
    destruct Hin as [E|Hin]; [|eapply IH; eauto]. inversion E; subst b.
    destruct (is_key a) eqn:K; [cbn in Hh; exact Hh|apply nonkey_nohelp; exact K].
Qed.

Section ScanHelp.
Variable items anc : list citem.
Variable tail : ctail.

Definition hpost (ts : list (arg * bool)) (r : scan_result) : Prop :=
  match r with
  | ScUnspec => True
  | ScDone _ | ScReject => hfree ts
  | ScCmd _ sub rest => exists pre w, ts = pre ++ (Word w, false) :: rest /\ hfree pre
  end.

Lemma hpost_cons hd ts ro oo wo res : hfree hd -> hpost ts res -> hpost (hd ++ ts) (att_cons ro oo wo res).
Proof.
  intros Hh Hp. destruct res as [a|a sub rest| |]; cbn [att_cons hpost] in *.
  - apply hfree_app; assumption.
  - destruct Hp as (pre & w & -> & Hf). exists (hd ++ pre), w. split; [rewrite app_assoc; reflexivity|apply hfree_app; assumption].
  - apply hfree_app; assumption.
  - exact I.
Qed.

Lemma hpost_rej tl ts : hpost ts (if unspec_later items anc tl false ts then ScUnspec else ScReject).
Proof. destruct (unspec_later items anc tl false ts) eqn:E; cbn; [exact I|eapply unspec_later_hfree; exact E]. Qed.

Lemma hfree_marked a : hfree [(a, true)].
Proof. intros b [E|[]]. discriminate. Qed.
Lemma hfree_one a : is_help a = false -> hfree [(a, false)].
Proof. intros H b [E|[]]. inversion E; subst. exact H. Qed.

Lemma scan_nohelp n : forall ts, length ts <= n -> hpost ts (scan items anc tail ts).
Proof.
  induction n as [|n IH]; intros ts Hn.
  - destruct ts; [cbn; intros b []|cbn in Hn; lia].
  - destruct ts as [|[x m] rest]; [cbn; intros b []|]. cbn [scan]. cbn [length] in Hn.
    destruct m.
    + apply (hpost_cons [(x, true)] rest); [apply hfree_marked|apply IH; lia].
    + assert (Hkey : is_key x = true ->
        hpost ((x, false) :: rest)
        (if is_help x then ScUnspec else
          match find_owner items x 0 with
          | Some (k, it) =>
            if is_argument it then
              match rest with
              | (ArgWord w, false) :: rest' | (Word w, false) :: rest' =>
                att_cons [RKey k; RVal k] [(k, Some w)] [] (scan items anc tail rest')
              | _ => if unspec_later items anc tail false ((x, false) :: rest) then ScUnspec else ScReject
              end
            else att_cons [RKey k] [(k, None)] [] (scan items anc tail rest)
          | None =>
            match find_owner anc x 0 with
            | Some _ => ScUnspec
            | None => if unspec_later items anc tail false ((x, false) :: rest) then ScUnspec else ScReject
            end
          end)).
      { intros Kx. destruct (is_help x) eqn:Hx; [exact I|].
        destruct (find_owner items x 0) as [[k it]|] eqn:Fo.
        - destruct (is_argument it).
          + destruct rest as [|[b mb] rest']; [apply hpost_rej|].
            destruct b as [c2 a2 o2|n2 a2 o2|w|w|w]; destruct mb; try apply hpost_rej.
            * apply (hpost_cons [(x, false); (ArgWord w, false)] rest');
                [apply (hfree_app [(x, false)] [(ArgWord w, false)]); apply hfree_one; [exact Hx|reflexivity]|].
              apply IH. cbn in Hn. lia.
            * apply (hpost_cons [(x, false); (Word w, false)] rest');
                [apply (hfree_app [(x, false)] [(Word w, false)]); apply hfree_one; [exact Hx|reflexivity]|].
              apply IH. cbn in Hn. lia.
          + apply (hpost_cons [(x, false)] rest); [apply hfree_one; exact Hx|apply IH; lia].
        - destruct (find_owner anc x 0); [exact I|apply hpost_rej]. }
      destruct x as [c adj os|nm adj os|w|w|w].
      * apply Hkey. reflexivity.
      * apply Hkey. reflexivity.
      * apply hpost_rej.
      * destruct (dashy w); [exact I|]. destruct tail as [|ps|cs].
        -- apply hpost_rej.
        -- apply (hpost_cons [(Word w, false)] rest); [apply hfree_one; reflexivity|apply IH; lia].
        -- destruct (find_cmd cs w); [|apply hpost_rej]. cbn [hpost]. exists [], w. split; [reflexivity|intros b []].
      * destruct tail as [|ps|cs]; try apply hpost_rej.
        apply (hpost_cons [(PosWord w, false)] rest); [apply hfree_one; reflexivity|apply IH; lia].
Qed.
End ScanHelp.

Lemma spec_hfree f : forall l anc ts, denote_level f l anc ts <> Unspecified -> hfree ts.
Proof.
  induction f as [|f IH]; intros [items tail] anc ts Hs; [cbn in Hs; contradiction Hs; reflexivity|].
  cbn [denote_level] in Hs.
  pose proof (scan_nohelp items anc tail _ ts (le_n _)) as P.
  destruct (scan items anc tail ts) as [a|a sub rest| |] eqn:Sc; cbn [hpost] in P.
  - exact P.
  - destruct P as (pre & w & -> & Hf). apply hfree_app; [exact Hf|].
    apply (hfree_app [(Word w, false)] rest); [apply hfree_one; reflexivity|].
    apply (IH sub (anc ++ items) rest). intros E. rewrite E in Hs. apply Hs. reflexivity.
  - exact P.
  - contradiction Hs. reflexivity.
Qed.

(* ------------------------------------------------------------------ the tokens of mark_tokens *)
Lemma mark_go_in mk its : forall ix0 k a, nth_error its k = Some a -> mk <> Some (ix0 + k) -> In (a, false) (mark_go mk its ix0).
Proof.
  induction its as [|x t IH]; intros ix0 k a Hn Hm; [destruct k; discriminate|].
  cbn [mark_go]. destruct k as [|k]; cbn in Hn.
  - inversion Hn; subst. left. f_equal. destruct mk as [m|]; [|reflexivity].
    apply Nat.eqb_neq. intros E. apply Hm. rewrite Nat.add_0_r. congruence.
  - right. apply (IH (S ix0) k a Hn). replace (S ix0 + k) with (ix0 + S k) by lia. exact Hm.
Qed.

(* C01: what the grammar rejects ends on stderr (or in one of the outcomes TotalLaws excludes) *)
Theorem denote_reject_stderr_partial feat env l argv :
  tree_ok l -> plain_cmds l = true -> denote l argv = Reject ->
  match run_inner feat env (compile_options l) None argv with
  | OutStderr _ | OutPanic _ | OutFuel => True
  | _ => False
  end.
Proof.
  intros Hok Hpl Hd.
  pose proof (denote_reject_tree feat env l argv Hok Hpl Hd) as Hno.
  assert (Hq : match run_inner feat env (compile_options l) None argv with OutStdout _ | OutCompletion _ => False | _ => True end).
  { apply run_quiet.
    - cbn. apply (proj1 (compile_quiet l)).
    - cbn. split; [apply (proj2 (compile_quiet l))|]. repeat split; reflexivity.
    - unfold denote in Hd. destruct (short_tables (compile_options l)) as [sf sa]. cbn [fst snd].
      destruct (t_ambiguity (tokenize sf sa argv)); [discriminate|].
      assert (Hs : denote_level (S (length (t_items (tokenize sf sa argv)))) l [] (mark_tokens (tokenize sf sa argv)) <> Unspecified)
        by (rewrite Hd; discriminate).
      pose proof (spec_hfree _ l [] _ Hs) as Hf.
      intros ix a Ha Hm. apply (Hf a). unfold mark_tokens. apply (mark_go_in _ _ 0 ix a Ha). cbn. exact Hm. }
  destruct (run_inner feat env (compile_options l) None argv) as [v|h|c|m|w|]; try exact I; try contradiction.
  exfalso. apply (Hno v). reflexivity.
Qed.

(* for flat levels the run is also total: exactly stderr *)
Theorem denote_reject_stderr_flat feat env items tail argv :
  flat_ok items tail -> denote (Level items tail) argv = Reject ->
  exists m, run_inner feat env (compile_options (Level items tail)) None argv = OutStderr m.
Proof.
  intros Hok Hd.
  assert (Htree : tree_ok (Level items tail)).
  { destruct tail as [|ps|cs]; cbn [tree_ok]; try exact Hok. destruct Hok as (_ & _ & F). contradiction. }
  assert (Hpl : plain_cmds (Level items tail) = true).
  { destruct tail as [|ps|cs]; try reflexivity. destruct Hok as (_ & _ & F). contradiction. }
  pose proof (denote_reject_stderr_partial feat env _ argv Htree Hpl Hd) as H1.
  pose proof (flat_run_total feat env items tail argv Hok) as H2. unfold normal_outcome in H2.
  destruct (run_inner feat env (compile_options (Level items tail)) None argv) as [v|h|c|m|w|]; try contradiction; eauto.
Qed.
Print Assumptions denote_reject_stderr_partial.
Print Assumptions denote_reject_stderr_flat.

(* ------------------------------------------------------------------ the compiled tree passes check_invariants at every level *)
Definition cm (t : ctriple) : meta :=
  let '(name, _, sub) := t in MItem (ICommand name None None (meta_of (compile sub)) default_info).

Lemma meta_mkcmd t : meta_of (mkcmd t) = cm t.
Proof. destruct t as [[name aliases] sub]. reflexivity. Qed.

Definition or_form (done : list ctriple) : meta :=
  match done with [t] => cm t | l => MOr (map cm l) end.

Lemma alts_or_form done : done <> [] -> alts (or_form done) = map cm done.
Proof.
  destruct done as [|t [|t2 r]]; [congruence| |]; intros _; cbn [or_form alts map].
  - destruct t as [[name aliases] sub]. reflexivity.
  - reflexivity.
Qed.

Lemma meta_fold_or more : forall p done, done <> [] -> meta_of p = or_form done ->
  meta_of (fold_left POr (map mkcmd more) p) = or_form (done ++ more).
Proof.
  induction more as [|t more IH]; intros p done Hne Hp; cbn [map fold_left].
  - rewrite app_nil_r. exact Hp.
  - replace (done ++ t :: more) with ((done ++ [t]) ++ more) by (rewrite <- app_assoc; reflexivity).
    apply IH; [destruct done; discriminate|].
    cbn [meta_of]. rewrite Hp, meta_mkcmd. unfold meta_or. rewrite (alts_or_form done Hne).
    assert (Ec : alts (cm t) = [cm t]) by (destruct t as [[name aliases] sub]; reflexivity). rewrite Ec.
    destruct done as [|d1 [|d2 dr]]; [congruence| |]; cbn [map app or_form]; [reflexivity|].
    rewrite map_app. reflexivity.
Qed.

Lemma inv_cm_ok t : (exists b, inv_go (meta_of (compile (snd t))) false = Some b) -> inv_go (cm t) false = Some true.
Proof.
  destruct t as [[name aliases] sub]. cbn [snd cm]. intros [b Hb].
  cbn [inv_go item_is_pos orb]. rewrite Hb. reflexivity.
Qed.

Fixpoint inv_any (xs : list meta) (is_pos out : bool) : option bool :=
  match xs with
  | [] => Some out
  | x :: t => match inv_go x is_pos with Some p => inv_any t is_pos (out || p) | None => None end
  end.
Lemma inv_or xs b : inv_go (MOr xs) b = inv_any xs b b.
Proof.
  cbn [inv_go]. generalize b at 2 4. revert b. induction xs as [|x t IH]; intros b out; cbn; [reflexivity|].
  destruct (inv_go x b); [apply IH|reflexivity].
Qed.

Lemma inv_any_cms ts : (forall t, In t ts -> exists b, inv_go (meta_of (compile (snd t))) false = Some b) ->
  forall out, exists o, inv_any (map cm ts) false out = Some o.
Proof.
  induction ts as [|t r IH]; intros H out; cbn [map inv_any]; [eauto|].
  rewrite (inv_cm_ok t (H t (or_introl eq_refl))). apply IH. intros t' Ht'. apply H. right. exact Ht'.
Qed.

Lemma inv_or_form ts : ts <> [] -> (forall t, In t ts -> exists b, inv_go (meta_of (compile (snd t))) false = Some b) ->
  exists o, inv_go (or_form ts) false = Some o.
Proof.
  intros Hne H. destruct ts as [|t [|t2 r]]; [congruence| |]; cbn [or_form].
  - rewrite (inv_cm_ok t (H t (or_introl eq_refl))). eauto.
  - rewrite inv_or. apply inv_any_cms. exact H.
Qed.

Fixpoint invariant_tree (l : level) : tree_ok l -> exists b, inv_go (meta_of (compile l)) false = Some b
with invariant_tree_cs (cs : clist) : tree_ok_cs cs ->
  forall t, In t (cs_list cs) -> exists b, inv_go (meta_of (compile (snd t))) false = Some b.
Proof.
  - destruct l as [items tail]. intros Hok. destruct tail as [|ps|cs].
    + pose proof (invariant_flat items TNone Hok) as Hi. unfold invariant_ok in Hi.
      destruct (inv_go (meta_of (compile (Level items TNone))) false); [eauto|discriminate].
    + pose proof (invariant_flat items (TPos ps) Hok) as Hi. unfold invariant_ok in Hi.
      destruct (inv_go (meta_of (compile (Level items (TPos ps)))) false); [eauto|discriminate].
    + cbn [tree_ok] in Hok. destruct Hok as (Hne & Hdis & Hnames & Hlen1 & Hsubs & Huniq & Hcross).
      cbn [compile]. rewrite compile_cmds_list.
      destruct (cs_list cs) as [|t0 more] eqn:Ecs; [destruct cs; [contradiction|discriminate]|].
      cbn [map]. set (alt := fold_left POr (map mkcmd more) (mkcmd t0)).
      assert (Hm : meta_of alt = or_form (t0 :: more)).
      { unfold alt. apply (meta_fold_or more (mkcmd t0) [t0]); [discriminate|]. cbn [or_form]. apply meta_mkcmd. }
      destruct (inv_or_form (t0 :: more) ltac:(discriminate)) as [o Ho].
      { intros t Ht. apply (invariant_tree_cs cs Hsubs). rewrite Ecs. exact Ht. }
      assert (Efields : exists p1 p2 r, map compile_item items ++ [alt] = p1 :: p2 :: r).
      { destruct items as [|i1 it']; [cbn in Hlen1; lia|]. cbn [map app]. destruct (map compile_item it' ++ [alt]) as [|p2 r] eqn:E.
        - destruct (map compile_item it'); discriminate.
        - eauto. }
      destruct Efields as (p1 & p2 & r & Ef). rewrite Ef. cbn [plist_of meta_of con_meta]. fold (plist_of r).
      change (meta_of p1 :: metas_of (PCons p2 (plist_of r))) with (metas_of (plist_of (p1 :: p2 :: r))).
      rewrite metas_plist, <- Ef. rewrite inv_and, map_app, inv_all_items. cbn [map inv_all]. rewrite Hm, Ho. eauto.
  - destruct cs as [|name aliases sub rest]; cbn [tree_ok_cs cs_list]; [intros _ t []|].
    intros [H1 H2] t [<-|Ht]; [cbn [snd]; apply (invariant_tree sub H1)|apply (invariant_tree_cs rest H2 t Ht)].
Qed.

(* ------------------------------------------------------------------ ... and is a definition TotalLaws covers *)
Lemma okl_plist l : okl (plist_of l) = forallb okp l.
Proof. induction l as [|p t IH]; cbn; [reflexivity|]. rewrite IH. reflexivity. Qed.

Lemma named_keyed n : named_ok n = true -> keyedb n = true.
Proof.
  unfold named_ok, keyedb, shortlong_of. intros H. apply andb_prop in H. destruct H as [_ H].
  destruct (n_short n), (n_long n); cbn in *; try reflexivity; discriminate.
Qed.

Lemma okp_item it : named_ok (item_named it) = true -> okp (compile_item it) = true.
Proof.
  intros H. apply named_keyed in H.
  destruct it as [n|n p a|n p|n|n p|n mv ty ar]; cbn [compile_item item_named okp] in *; try exact H. destruct ar; exact H.
Qed.

Lemma okp_pos p : okp (compile_pos p) = true.
Proof. unfold compile_pos. destruct (cp_par p); reflexivity. Qed.

Lemma okp_fold_or more : forall c, okp c = true -> (forall q, In q more -> okp q = true) -> okp (fold_left POr more c) = true.
Proof.
  induction more as [|q more IH]; intros c Hc Hm; cbn [fold_left]; [exact Hc|].
  apply IH; [cbn; rewrite Hc, (Hm q (or_introl eq_refl)); reflexivity|intros q' Hq'; apply Hm; right; exact Hq'].
Qed.

Fixpoint okp_tree (l : level) : tree_ok l -> okp (compile l) = true
with okp_tree_cs (cs : clist) : tree_ok_cs cs -> forall q, In q (compile_cmds cs) -> okp q = true.
Proof.
  - destruct l as [items tail]. intros Hok.
    assert (Hnames : Forall (fun it => named_ok (item_named it) = true) items).
    { destruct tail as [|ps|cs]; cbn [tree_ok] in Hok; [apply Hok|apply Hok|apply Hok]. }
    cbn [compile okp].
    assert (Hall : forall fs, (forall q, In q fs -> okp q = true) -> okl (plist_of (map compile_item items ++ fs)) = true).
    { intros fs Hfs. rewrite okl_plist. apply forallb_forall. intros q Hq. apply in_app_or in Hq. destruct Hq as [Hq|Hq]; [|apply Hfs; exact Hq].
      apply in_map_iff in Hq. destruct Hq as (it & <- & Hit). apply okp_item. rewrite Forall_forall in Hnames. apply Hnames. exact Hit. }
    destruct tail as [|ps|cs].
    + apply Hall. intros q [].
    + apply Hall. intros q Hq. apply in_map_iff in Hq. destruct Hq as (p & <- & _). apply okp_pos.
    + cbn [tree_ok] in Hok. destruct Hok as (_ & _ & _ & _ & Hsubs & _).
      pose proof (okp_tree_cs cs Hsubs) as Hc. destruct (compile_cmds cs) as [|c more]; [apply Hall; intros q []|].
      apply Hall. intros q [<-|[]]. apply okp_fold_or; [apply Hc; left; reflexivity|intros q' Hq'; apply Hc; right; exact Hq'].
  - destruct cs as [|name aliases sub rest]; cbn [tree_ok_cs compile_cmds]; [intros _ q []|].
    intros [H1 H2] q [<-|Hq]; [|apply (okp_tree_cs rest H2); exact Hq].
    cbn [okp oko negb andb]. rewrite (okp_tree sub H1). cbn [andb]. unfold invariant_ok.
    destruct (invariant_tree sub H1) as [b ->]. reflexivity.
Qed.

Lemma oko_tree l : tree_ok l -> oko (compile_options l) = true.
Proof.
  intros Hok. unfold compile_options. cbn [oko]. rewrite (okp_tree l Hok). cbn [andb]. unfold invariant_ok.
  destruct (invariant_tree l Hok) as [b ->]. reflexivity.
Qed.

(* C04/C01: a conventional subcommand tree is total on every vector *)
Theorem tree_run_total feat env l name argv : tree_ok l -> TotalAll.normal (run_inner feat env (compile_options l) name argv).
Proof. intros Hok. apply TotalAll.run_total. apply oko_tree. exact Hok. Qed.

(* C01, last clause, for whole trees: every specified non-sentence is reported on stderr *)
Theorem denote_reject_stderr_tree feat env l argv :
  tree_ok l -> plain_cmds l = true -> denote l argv = Reject ->
  exists m, run_inner feat env (compile_options l) None argv = OutStderr m.
Proof.
  intros Hok Hpl Hd.
  pose proof (denote_reject_stderr_partial feat env l argv Hok Hpl Hd) as H1.
  pose proof (tree_run_total feat env l None argv Hok) as H2. unfold TotalAll.normal in H2.
  destruct (run_inner feat env (compile_options l) None argv) as [v|h|c|m|w|]; try contradiction; eauto.
Qed.
Print Assumptions denote_reject_stderr_tree.
