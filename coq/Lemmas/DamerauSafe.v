(* DamerauSafe.v -- C04: the edit distance behind the `did you mean` suggestions never indexes its matrix out of
   bounds.  Model/Message.v transcribes `damerau_levenshtein` (src/meta_youmean.rs) with total accessors (`nth` with a
   default, `update_nth` that ignores a position beyond the end); `d[ix(i, j)]` in the Rust code panics on such a
   position.  Here the same function is written with CHECKED accessors (None = the panic) and shown to return, and to
   agree with the transcription, for all strings: every index the loops compute lies inside the
   (a_len + 1) * (b_len + 1) vector (the row stride is a_len, not a_len + 1 -- cells alias, but stay inside). *)
From Coq Require Import Lia List Arith NArith Bool.
From BpafModel Require Import Message.
Import ListNotations.

Definition cget (d : list nat) (k : nat) : option nat := nth_error d k.
Definition cset (k v : nat) (d : list nat) : option (list nat) :=
  if Nat.ltb k (length d) then Some (update_nth k v d) else None.

Fixpoint c_init_i (d : list nat) (i n : nat) : option (list nat) :=
  match n with
  | O => Some d
  | S n' => match cset i i d with Some d' => c_init_i d' (S i) n' | None => None end
  end.

Fixpoint c_init_j (alen : nat) (d : list nat) (j n : nat) : option (list nat) :=
  match n with
  | O => Some d
  | S n' => match cset (alen * j) j d with Some d' => c_init_j alen d' (S j) n' | None => None end
  end.

Fixpoint c_row (alen i : nat) (ca pa : char) (bs0 : list char) (j : nat) (pb : char) (d : list nat)
  : option (list nat * char) :=
  match bs0 with
  | [] => Some (d, pb)
  | cb :: t =>
    let ix (ii jj : nat) := alen * jj + ii in
    let cost := if (ca =? cb)%N then O else 1 in
    match cget d (ix (i - 1) j), cget d (ix i (j - 1)), cget d (ix (i - 1) (j - 1)) with
    | Some x, Some y, Some z =>
      let v := Nat.min (Nat.min (x + 1) (y + 1)) (z + cost) in
      match cset (ix i j) v d with
      | None => None
      | Some d1 =>
        let d2 :=
          if Nat.ltb 1 i && Nat.ltb 1 j && (ca =? pb)%N && (cb =? pa)%N
          then match cget d1 (ix i j), cget d1 (ix (i - 2) (j - 2)) with
               | Some p, Some q => cset (ix i j) (Nat.min p (q + 1)) d1
               | _, _ => None
               end
          else Some d1 in
        match d2 with
        | Some d2' => c_row alen i ca pa t (S j) cb d2'
        | None => None
        end
      end
    | _, _, _ => None
    end
  end.

Fixpoint c_rows (alen : nat) (as0 bs0 : list char) (i : nat) (pa pb : char) (d : list nat) : option (list nat) :=
  match as0 with
  | [] => Some d
  | ca :: t =>
    match c_row alen i ca pa bs0 1 pb d with
    | Some (d', pb') => c_rows alen t bs0 (S i) ca pb' d'
    | None => None
    end
  end.

(* None: an index out of bounds *)
Definition damerau_checked (a b : list char) : option (option nat) :=
  let alen := length a in
  let blen := length b in
  let d0 := repeat O ((alen + 1) * (blen + 1)) in
  match c_init_i d0 O (S alen) with
  | None => None
  | Some d1 =>
    match c_init_j alen d1 O (S blen) with
    | None => None
    | Some d2 =>
      match c_rows alen a b 1 0%N 0%N d2 with
      | None => None
      | Some d3 =>
        match cget d3 (alen * blen + alen) with
        | None => None
        | Some diff => Some (if Nat.leb (Nat.min alen blen) diff then None else Some diff)
        end
      end
    end
  end.

(* ------------------------------------------------------------------ accessors *)
Lemma update_nth_len {A} k (v : A) l : length (update_nth k v l) = length l.
Proof. revert k. induction l as [|h t IH]; intros k; destruct k; cbn; auto. Qed.

Lemma cget_ok d k : k < length d -> cget d k = Some (dl_get d k).
Proof. intros H. unfold cget, dl_get. apply nth_error_nth'. exact H. Qed.

Lemma cset_ok k v d : k < length d -> cset k v d = Some (update_nth k v d).
Proof. intros H. unfold cset. apply Nat.ltb_lt in H. rewrite H. reflexivity. Qed.

(* ------------------------------------------------------------------ the loops *)
Lemma c_init_i_ok : forall n d i, i + n <= length d ->
  c_init_i d i n = Some (dl_init_i d i n) /\ length (dl_init_i d i n) = length d.
Proof.
  induction n as [|n IH]; intros d i H; cbn [c_init_i dl_init_i]; [split; reflexivity|].
  rewrite cset_ok by lia. destruct (IH (update_nth i i d) (S i)) as [E L]; [rewrite update_nth_len; lia|].
  rewrite E, L, update_nth_len. split; reflexivity.
Qed.

Lemma c_init_j_ok alen : forall n d j, (forall jj, jj < j + n -> alen * jj < length d) ->
  c_init_j alen d j n = Some (dl_init_j alen d j n) /\ length (dl_init_j alen d j n) = length d.
Proof.
  induction n as [|n IH]; intros d j H; cbn [c_init_j dl_init_j]; [split; reflexivity|].
  rewrite cset_ok by (apply H; lia).
  destruct (IH (update_nth (alen * j) j d) (S j)) as [E L]; [intros jj Hj; rewrite update_nth_len; apply H; lia|].
  rewrite E, L, update_nth_len. split; reflexivity.
Qed.

Lemma c_row_ok alen blen i ca pa : 1 <= i -> i <= alen ->
  forall bs0 j pb d, 1 <= j -> j + length bs0 <= blen + 1 -> length d = (alen + 1) * (blen + 1) ->
  c_row alen i ca pa bs0 j pb d = Some (dl_row alen i ca pa bs0 j pb d) /\
  length (fst (dl_row alen i ca pa bs0 j pb d)) = length d.
Proof.
  intros Hi1 Hi2. induction bs0 as [|cb t IH]; intros j pb d Hj1 Hj2 Hl; cbn [c_row dl_row]; [split; reflexivity|].
  cbn [length] in Hj2.
  assert (B : forall ii jj, ii <= alen -> jj <= blen -> alen * jj + ii < length d).
  { intros ii jj A1 A2. rewrite Hl. nia. }
  rewrite !cget_ok by (apply B; lia).
  rewrite cset_ok by (apply B; lia).
  set (v := Nat.min (Nat.min (dl_get d (alen * j + (i - 1)) + 1) (dl_get d (alen * (j - 1) + i) + 1))
                    (dl_get d (alen * (j - 1) + (i - 1)) + (if (ca =? cb)%N then 0 else 1))).
  set (d1 := update_nth (alen * j + i) v d).
  assert (L1 : length d1 = length d) by apply update_nth_len.
  destruct (Nat.ltb 1 i && Nat.ltb 1 j && (ca =? pb)%N && (cb =? pa)%N).
  - rewrite !cget_ok by (rewrite L1; apply B; lia).
    rewrite cset_ok by (rewrite L1; apply B; lia).
    match goal with |- context [update_nth ?k ?x d1] => set (d2 := update_nth k x d1) end.
    assert (L2 : length d2 = length d) by (unfold d2; rewrite update_nth_len; exact L1).
    destruct (IH (S j) cb d2) as [E L]; [lia|lia|congruence|]. rewrite E, L. split; [reflexivity|exact L2].
  - destruct (IH (S j) cb d1) as [E L]; [lia|lia|congruence|]. rewrite E, L. split; [reflexivity|exact L1].
Qed.

Lemma c_rows_ok alen blen bs0 : length bs0 = blen ->
  forall as0 i pa pb d, 1 <= i -> i + length as0 <= alen + 1 -> length d = (alen + 1) * (blen + 1) ->
  c_rows alen as0 bs0 i pa pb d = Some (dl_rows alen as0 bs0 i pa pb d) /\
  length (dl_rows alen as0 bs0 i pa pb d) = length d.
Proof.
  intros Hb. induction as0 as [|ca t IH]; intros i pa pb d Hi1 Hi2 Hl; cbn [c_rows dl_rows]; [split; reflexivity|].
  cbn [length] in Hi2.
  destruct (c_row_ok alen blen i ca pa Hi1 ltac:(lia) bs0 1 pb d (le_n 1) ltac:(lia) Hl) as [E L].
  rewrite E. destruct (dl_row alen i ca pa bs0 1 pb d) as [d' pb'] eqn:R. cbn [fst] in L.
  destruct (IH (S i) ca pb' d') as [E' L']; [lia|lia|congruence|]. rewrite E', L'. split; [reflexivity|exact L].
Qed.

(* the matrix is never indexed out of bounds, and the transcription with total accessors computes the same *)
Theorem damerau_in_bounds a b : damerau_checked a b = Some (damerau_levenshtein a b).
Proof.
  unfold damerau_checked, damerau_levenshtein.
  set (alen := length a). set (blen := length b). set (L := (alen + 1) * (blen + 1)).
  assert (L0 : length (repeat 0 L) = L) by apply repeat_length.
  destruct (c_init_i_ok (S alen) (repeat 0 L) 0) as [E1 L1]; [rewrite L0; unfold L; nia|].
  rewrite E1.
  destruct (c_init_j_ok alen (S blen) (dl_init_i (repeat 0 L) 0 (S alen)) 0) as [E2 L2].
  { intros jj Hj. rewrite L1, L0. unfold L. nia. }
  rewrite E2.
  destruct (c_rows_ok alen blen b eq_refl a 1 0%N 0%N (dl_init_j alen (dl_init_i (repeat 0 L) 0 (S alen)) 0 (S blen)))
    as [E3 L3]; [lia|unfold alen; lia|rewrite L2, L1, L0; reflexivity|].
  rewrite E3. rewrite cget_ok; [reflexivity|]. rewrite L3, L2, L1, L0. unfold L. nia.
Qed.
