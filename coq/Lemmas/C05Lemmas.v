(* C05Lemmas.v -- "exactly once": reach + ledger + no-loss put together. *)
From BpafLemmas Require Import Tac EvalEq Find RunSub Reach Ledger NoLoss.

Definition full_scope (s : state) : Prop := sc_start s = 0 /\ sc_end s = length (items s).

Lemma live_lt s i : live s i -> i < length (ist s).
Proof.
  unfold live, present_at, ist_at. intros H. apply nth_error_Some.
  destruct (nth_error (ist s) i); [discriminate|discriminate].
Qed.

Lemma lt_live_or_dead s i : i < length (ist s) -> live s i \/ dead s i.
Proof.
  intros H. unfold live, dead, present_at, ist_at.
  destruct (nth_error (ist s) i) as [st|] eqn:E; [|apply nth_error_None in E; lia].
  cbn. destruct (present st); auto.
Qed.

Lemma no_live s : lenwf s -> first_item_ix s = None -> forall i, in_scope s i = true -> ~ live s i.
Proof.
  intros Hw Hf i Hin Hl. unfold first_item_ix in Hf.
  pose proof (live_lt _ _ Hl) as Hlt.
  unfold live, present_at, ist_at in Hl.
  destruct (nth_error (ist s) i) as [st|] eqn:Hst; [|discriminate]. cbn in Hl. inv Hl.
  destruct (nth_error (items s) i) as [a|] eqn:Ha;
    [|apply nth_error_None in Ha; unfold lenwf in Hw; lia].
  pose proof (find_item_none _ _ Hf i a st Hin Ha Hst) as Hc.
  assert (true = false) by (apply Hc; assumption). discriminate.
Qed.

Lemma full_scope_in s i : full_scope s -> lenwf s -> i < length (ist s) -> in_scope s i = true.
Proof.
  intros [H1 H2] Hw Hi. unfold in_scope. rewrite H1, H2. unfold lenwf in Hw.
  apply andb_true_intro. split; [apply Nat.leb_le; lia|apply Nat.ltb_lt; lia].
Qed.

Theorem exactly_once :
  forall K env o s v s',
    okinds_ok K o -> lenwf s -> full_scope s ->
    run_sub env o s = (SOk v, s') ->
    exists l,
      log s' = l ++ log s /\
      NoDup (map fst l) /\
      (forall i, live s i -> In i (map fst l)) /\
      (forall i k, In (i, k) l ->
         K k /\ live s i /\ forall a, nth_error (items s) i = Some a -> accepts k a = true) /\
      (forall i, i < length (items s) -> dead s' i).
Proof.
  intros K env o s v s' Hk Hw Hfull Hrun.
  destruct (eval_good_all K env) as (_ & _ & Hgood).
  destruct (Hgood o Hk) as [Hreach Hnl].
  pose proof (Hreach s) as R. rewrite Hrun in R. cbn in R.
  destruct (Hnl _ _ _ Hw Hrun) as [N Hfirst].
  assert (Hw' : lenwf s') by (eapply reach_lenwf; eauto).
  destruct (reach_ext _ _ _ R) as [l E].
  assert (Hdead : forall i, i < length (ist s) -> dead s' i).
  { intros i Hi.
    destruct (lt_live_or_dead s' i) as [Hl|Hd]; [rewrite (ext_len _ _ _ _ E); exact Hi| |exact Hd].
    exfalso. eapply (no_live s' Hw' Hfirst i); [|exact Hl].
    apply N; [|exact Hl]. apply full_scope_in; assumption. }
  exists l. split; [apply (ext_log _ _ _ _ E)|].
  split; [apply (ext_nodup _ _ _ _ E)|].
  split.
  { intros i Hl. apply (ext_complete _ _ _ _ E); [exact Hl|]. apply Hdead. eapply live_lt; eauto. }
  split.
  { intros i k Hin. destruct (ext_entries _ _ _ _ E i k Hin) as (H1 & H2 & _ & H4). auto. }
  intros i Hi. apply Hdead. unfold lenwf in Hw. lia.
Qed.

Theorem foreign_item :
  forall env o s i a,
    okinds_ok (fun k => accepts k a = false) o -> lenwf s -> full_scope s ->
    nth_error (items s) i = Some a -> live s i ->
    forall v s', run_sub env o s <> (SOk v, s').
Proof.
  intros env o s i a Hk Hw Hfull Ha Hl v s' Hrun.
  destruct (exactly_once _ env o s v s' Hk Hw Hfull Hrun) as (l & _ & _ & Hcov & Hent & _).
  specialize (Hcov i Hl). apply in_map_iff in Hcov. destruct Hcov as [[i' k] [Hfst Hin]].
  cbn in Hfst. subst i'. destruct (Hent i k Hin) as (Hrej & _ & Hacc).
  specialize (Hacc a Ha). cbn in Hrej. congruence.
Qed.

(* ------------------------------------------------------------------ the initial state *)
Lemma tok_go_marker sf sa argv pos_only acc marker :
  (forall m, marker = Some m -> m < length acc) ->
  forall m, t_marker (tok_go sf sa argv pos_only acc marker) = Some m ->
            m < length (t_items (tok_go sf sa argv pos_only acc marker)).
Proof.
  revert pos_only acc marker. induction argv as [|os more IH]; intros pos_only acc marker Hm m H.
  - cbn in *. rewrite rev_length. auto.
  - cbn [tok_go] in *.
    assert (Hgrow : forall (acc' : list arg) (mk : option nat), length acc <= length acc' ->
                      (mk = marker \/ mk = Some (length acc) /\ length acc < length acc') ->
                      forall m0, mk = Some m0 -> m0 < length acc').
    { intros acc' mk Hle [->|[-> Hlt]] m0 E; [specialize (Hm _ E); lia|inv E; lia]. }
    destruct pos_only.
    + apply IH in H; [exact H|]. apply (Hgrow _ marker); cbn; auto.
    + destruct (split_os_argument os) as [[[ty nm] body]|] eqn:Hs.
      * destruct ty.
        { destruct body as [body|].
          - destruct (utf8_decode nm) as [[|c cs]|]; cbn in H |- *;
              try (rewrite rev_length; auto; fail).
            apply IH in H; [exact H|]. apply (Hgrow _ marker); cbn; auto.
          - destruct (utf8_decode nm) as [cs|]; cbn in H |- *; [|rewrite rev_length; auto].
            destruct (disambiguate_short sf sa os cs) as [pushed|pushed].
            + apply IH in H; [exact H|]. apply (Hgrow _ marker); auto.
              rewrite app_length. lia.
            + cbn in H |- *. rewrite rev_length, app_length. specialize (Hm _ H). lia. }
        { destruct body as [body|]; (apply IH in H; [exact H|]); apply (Hgrow _ marker); cbn; auto. }
      * destruct (beqb os dashdash).
        { apply IH in H; [exact H|]. apply (Hgrow _ (Some (length acc))); cbn; auto. }
        { apply IH in H; [exact H|]. apply (Hgrow _ marker); cbn; auto. }
Qed.

Lemma repeat_nth {A} (x : A) n i : i < n -> nth_error (repeat x n) i = Some x.
Proof.
  revert i. induction n as [|n IH]; intros i Hi; [lia|]. destruct i; cbn; [reflexivity|].
  apply IH. lia.
Qed.

Record init_ok (st : state) : Prop := mkInitOk {
  io_wf : lenwf st;
  io_full : full_scope st;
  io_log : (log st = [] /\ forall i, i < length (items st) -> live st i) \/
           (exists m, log st = [(m, KTok)] /\ m < length (items st) /\ dead st m /\
                      forall i, i < length (items st) -> i <> m -> live st i) }.

Lemma construct_ok sf sa name argv : init_ok (fst (construct sf sa name argv)).
Proof.
  unfold construct. set (t := tokenize sf sa argv).
  pose proof (tok_go_marker sf sa argv false [] None (fun m E => ltac:(discriminate))) as Hmk.
  fold (tokenize sf sa argv) in Hmk. fold t in Hmk.
  destruct (t_marker t) as [m|] eqn:Hm; cbn.
  - specialize (Hmk m eq_refl).
    constructor; cbn.
    + unfold lenwf; cbn. rewrite update_nth_length, repeat_length. reflexivity.
    + split; reflexivity.
    + right. exists m. split; [reflexivity|]. split; [exact Hmk|]. split.
      * unfold dead, present_at, ist_at; cbn. rewrite update_nth_same; [reflexivity|].
        rewrite repeat_length. exact Hmk.
      * intros i Hi Hne. unfold live, present_at, ist_at; cbn.
        rewrite update_nth_other by exact Hne. rewrite repeat_nth by exact Hi. reflexivity.
  - constructor; cbn.
    + unfold lenwf; cbn. rewrite repeat_length. reflexivity.
    + split; reflexivity.
    + left. split; [reflexivity|]. intros i Hi. unfold live, present_at, ist_at; cbn.
      rewrite repeat_nth by exact Hi. reflexivity.
Qed.

Lemma NoDup_app_singleton {A} (l : list A) (x : A) : NoDup l -> ~ In x l -> NoDup (l ++ [x]).
Proof.
  induction l as [|h t IH]; intros Hnd Hx; cbn.
  - constructor; [intros []|constructor].
  - inversion Hnd as [|? ? Hh Ht]; subst. constructor.
    + intros Hin. apply in_app_or in Hin. destruct Hin as [Hin|[E|[]]]; [auto|].
      subst. apply Hx. left. reflexivity.
    + apply IH; [exact Ht|]. intros Hin. apply Hx. right. exact Hin.
Qed.

Theorem run_inner_exactly_once :
  forall K feat env o name argv v s',
    okinds_ok K o ->
    run_inner_state feat env o name argv = (SOk v, s') ->
    let n := length (items s') in
    NoDup (map fst (log s')) /\
    (forall i, i < n -> In i (map fst (log s'))) /\
    (forall i k, In (i, k) (log s') ->
       i < n /\ (k = KTok \/ (K k /\ forall a, nth_error (items s') i = Some a -> accepts k a = true))).
Proof.
  intros K feat env o name argv v s' Hk H n.
  unfold run_inner_state, initial_state in H.
  destruct (short_tables o) as [sf sa].
  pose proof (construct_ok sf sa name argv) as Hinit.
  destruct (construct sf sa name argv) as [st amb]. cbn in Hinit.
  assert (Hrun : run_sub env o st = (SOk v, s')).
  { destruct amb as [[ix sh]|]; [inv H|exact H]. }
  clear H. destruct Hinit as [Hw Hfull Hlog].
  destruct (exactly_once K env o st v s' Hk Hw Hfull Hrun) as (l & Hl & Hnd & Hcov & Hent & Hdead).
  assert (Hitems : items s' = items st).
  { destruct (eval_good_all K env) as (_ & _ & Hgood). destruct (Hgood o Hk) as [Hreach _].
    pose proof (Hreach st) as R. rewrite Hrun in R. cbn in R.
    destruct (reach_ext _ _ _ R) as [l0 E]. apply (ext_items _ _ _ _ E). }
  subst n. rewrite Hitems.
  assert (Hlt : forall i, live st i -> i < length (items st)).
  { intros i Hi. apply live_lt in Hi. unfold lenwf in Hw. lia. }
  destruct Hlog as [[Hl0 Hall]|(m & Hl0 & Hm & Hdm & Hall)]; rewrite Hl, Hl0.
  - rewrite app_nil_r. split; [exact Hnd|]. split.
    + intros i Hi. apply Hcov. apply Hall. exact Hi.
    + intros i k Hin. destruct (Hent i k Hin) as (H1 & H2 & H3). split; [auto|]. right. auto.
  - rewrite map_app. cbn. split.
    + apply NoDup_app_singleton; [exact Hnd|]. intros Hin. apply in_map_iff in Hin.
      destruct Hin as [[i k] [E Hin]]. cbn in E. subst i.
      destruct (Hent m k Hin) as (_ & Hlv & _). eapply live_dead_excl; eauto.
    + split.
      * intros i Hi. apply in_or_app. destruct (Nat.eq_dec i m) as [->|Hne]; [right; left; reflexivity|].
        left. apply Hcov. apply Hall; assumption.
      * intros i k Hin. apply in_app_or in Hin. destruct Hin as [Hin|[E|[]]].
        -- destruct (Hent i k Hin) as (H1 & H2 & H3). split; [auto|]. right. auto.
        -- inv E. split; [exact Hm|]. left. reflexivity.
Qed.

(* ------------------------------------------------------------------ a concrete instance *)
Definition c05_example_parser : oparser :=
  Options (PCon (PCons (PFlag (mkNamed [118%N] [] [] None) (VBool true) (Some (VBool false)))
                (PCons (PArg (mkNamed [] [[110; 117; 109]%N] [] None) [78%N] TyU32 false)
                (PCons (PPos [70%N] TyString Unrestricted None) PNil))))
          default_info.
(* -v --num 12 file *)
Definition c05_example_argv : list bytes :=
  [[45; 118]; [45; 45; 110; 117; 109]; [49; 50]; [102; 105; 108; 101]]%N.
